"""Reference (denotational) layout semantics over document terms and a membership matcher.

Independent of prettyprinter.layout / doctypes: works on terms (ppv.docterm) and on the emitted
SDoc stream only (str fragments, SLine(indent), SAnnotationPush/Pop(value)).

Semantics.  render(t, mode, indent, col) is non-deterministic at `grp` (FLAT or BREAK) and at each
`fill` item (FLAT or BREAK).  fc takes the flat branch iff mode == FLAT; line/soft are ' ' / nothing in
FLAT and a newline at `indent` in BREAK; hard is always a newline at `indent`; nest adds to indent;
align sets indent := column; hang i sets indent := column + i; ab(d) renders d in BREAK; ann(a, d)
emits push(a) . d . pop(a).

STRICT clause: a grp (or fill item) may be FLAT only if, read in FLAT mode, it reaches no hard and no ab.
KF1 clause (known finding C04-hardline-in-flat-group): FLAT is also tolerated if the first forced
element reached in FLAT mode is a `hard` (not an `ab`) and the group holds no `ab` in a position from
which normalisation hoists it (through cat / nest / grp, or as a direct fill item).  Normalisation does not
descend into fill items, so for a fill item nothing inside it is hoisted: the item is tolerated FLAT whenever
the first forced element reached is a `hard` (an item that is itself an `ab` is laid out broken).  A fill
separator is decided by reading the content item before it and the separator together, so a separator is also
tolerated FLAT when that content item reaches a `hard` first.
"""
BREAK, FLAT = 0, 1

STRICT, KF1 = 'strict', 'kf1'


def first_forced(t, cache):
    """first of 'hard' / 'ab' reached when t is read in FLAT mode, else None"""
    key = id(t)
    if key in cache:
        return cache[key]
    k = t[0]
    if k == 'hard':
        r = 'hard'
    elif k == 'ab':
        r = 'ab'
    elif k in ('t', 'line', 'soft'):
        r = None
    elif k in ('cat', 'fill'):
        r = None
        for x in t[1]:
            r = first_forced(x, cache)
            if r:
                break
    elif k in ('nest', 'hang', 'ann'):
        r = first_forced(t[2], cache)
    elif k in ('grp', 'align'):
        r = first_forced(t[1], cache)
    elif k == 'fc':
        r = first_forced(t[2], cache)
    else:
        raise ValueError(t)
    cache[key] = r
    return r


def hoistable_ab(t):
    k = t[0]
    if k == 'ab':
        return True
    if k == 'cat':
        return any(hoistable_ab(x) for x in t[1])
    if k == 'nest':
        return hoistable_ab(t[2])
    if k == 'grp':
        return hoistable_ab(t[1])
    if k == 'fill':
        return any(x[0] == 'ab' for x in t[1])
    return False


def contains_forced_flat(t):
    """does the FLAT reading of t reach any hard / ab at all"""
    return first_forced(t, {}) is not None


class TooAmbiguous(Exception):
    pass


class Matcher:
    def __init__(self, stream, anns, clause, sdoctypes, budget=400000):
        self.s = stream
        self.n = len(stream)
        self.anns = anns          # repr(ann key) -> object
        self.clause = clause
        self.SLine = sdoctypes.SLine
        self.Push = sdoctypes.SAnnotationPush
        self.Pop = sdoctypes.SAnnotationPop
        self.memo = {}
        self.ff = {}
        self.hz = {}
        self.budget = budget
        self.used_kf1 = False

    def may_flat(self, t, fill_item=False):
        """t is the body of a group / a fill item"""
        ff = first_forced(t, self.ff)
        if ff is None:
            return True
        if self.clause == KF1 and ff == 'hard':
            if fill_item:
                # normalisation does not descend into fill items: nothing inside one is hoisted (an item that IS an
                # always_break is laid out broken - handled by the caller)
                return True
            key = id(t)
            if key not in self.hz:
                self.hz[key] = hoistable_ab(t)
            return not self.hz[key]
        return False

    def ends(self, t, mode, indent, pos, col):
        key = (id(t), mode, indent, pos, col)
        r = self.memo.get(key)
        if r is not None:
            return r
        self.budget -= 1
        if self.budget < 0:
            raise TooAmbiguous()
        r = self._ends(t, mode, indent, pos, col)
        self.memo[key] = r
        return r

    def _seq(self, items, modes_for_item, indent, pos, col):
        states = {(pos, col)}
        for it in items:
            nxt = set()
            for md in modes_for_item(it):
                for (p, c) in states:
                    nxt |= self.ends(it, md, indent, p, c)
            states = nxt
            if not states:
                break
        return frozenset(states)

    def _ends(self, t, mode, indent, pos, col):
        s = self.s
        k = t[0]
        if k == 't':
            txt = t[1]
            if txt == '':
                out = {(pos, col)}
                if pos < self.n and s[pos] == '':
                    out.add((pos + 1, col))
                return frozenset(out)
            if pos < self.n and isinstance(s[pos], str) and s[pos] == txt:
                return frozenset([(pos + 1, col + len(txt))])
            return frozenset()
        if k == 'hard' or (mode == BREAK and k in ('line', 'soft')):
            if pos < self.n and isinstance(s[pos], self.SLine) and s[pos].indent == indent:
                return frozenset([(pos + 1, indent)])
            return frozenset()
        if k == 'line':
            if pos < self.n and s[pos] == ' ':
                return frozenset([(pos + 1, col + 1)])
            return frozenset()
        if k == 'soft':
            return frozenset([(pos, col)])
        if k == 'cat':
            return self._seq(t[1], lambda it: (mode,), indent, pos, col)
        if k == 'nest':
            return self.ends(t[2], mode, indent + t[1], pos, col)
        if k == 'align':
            return self.ends(t[1], mode, col, pos, col)
        if k == 'hang':
            return self.ends(t[2], mode, col + t[1], pos, col)
        if k == 'ann':
            obj = self.anns[repr(t[1])]
            if pos < self.n and isinstance(s[pos], self.Push) and s[pos].value is obj:
                out = set()
                for (p, c) in self.ends(t[2], mode, indent, pos + 1, col):
                    if p < self.n and isinstance(s[p], self.Pop) and s[p].value is obj:
                        out.add((p + 1, c))
                return frozenset(out)
            return frozenset()
        if k == 'fc':
            return self.ends(t[2] if mode == FLAT else t[1], mode, indent, pos, col)
        if k == 'ab':
            return self.ends(t[1], BREAK, indent, pos, col)
        if k == 'grp':
            out = set(self.ends(t[1], BREAK, indent, pos, col))
            if self.may_flat(t[1]):
                out |= self.ends(t[1], FLAT, indent, pos, col)
            return frozenset(out)
        if k == 'fill':
            items = t[1]
            states = {(pos, col)}
            for i, it in enumerate(items):
                if it[0] == 'ab':
                    mds = (BREAK,)
                elif self.may_flat(it, fill_item=True):
                    mds = (FLAT, BREAK)
                elif (self.clause == KF1 and i % 2 == 1 and items[i - 1][0] != 'ab'
                      and first_forced(items[i - 1], self.ff) == 'hard'):
                    # the engine decides a separator by reading the content before it and the separator together:
                    # a hardline in that content is the first forced element reached (same cause as KF1)
                    mds = (FLAT, BREAK)
                else:
                    mds = (BREAK,)
                nxt = set()
                for md in mds:
                    for (p, c) in states:
                        nxt |= self.ends(it, md, indent, p, c)
                states = nxt
                if not states:
                    break
            return frozenset(states)
        raise ValueError(t)

    def member(self, t):
        for (p, c) in self.ends(t, BREAK, 0, 0, 0):
            if p == self.n:
                return True
        return False


def membership(t, stream, anns, sdoctypes):
    """-> 'strict' | 'kf1' | None"""
    if Matcher(stream, anns, STRICT, sdoctypes).member(t):
        return STRICT
    if Matcher(stream, anns, KF1, sdoctypes).member(t):
        return KF1
    return None


def stream_text(stream, sdoctypes):
    """raw text of a stream: str fragments and newline+indent for SLine"""
    out = []
    for x in stream:
        if isinstance(x, str):
            out.append(x)
        elif isinstance(x, sdoctypes.SLine):
            out.append('\n' + ' ' * x.indent)
    return ''.join(out)


def annotations_nested(stream, sdoctypes):
    stack = []
    for x in stream:
        if isinstance(x, sdoctypes.SAnnotationPush):
            stack.append(x.value)
        elif isinstance(x, sdoctypes.SAnnotationPop):
            if not stack or stack[-1] is not x.value:
                return False
            stack.pop()
    return not stack


# ---------------------------------------------------------------------------
# decision recovery for the classic algebra (C05 / C06)

class Decision:
    __slots__ = ('term', 'flat', 'pos', 'col', 'indent', 'stack')

    def __init__(self, term, flat, pos, col, indent, stack):
        self.term = term
        self.flat = flat
        self.pos = pos
        self.col = col
        self.indent = indent
        self.stack = stack      # continuation: linked list ((indent, mode, term), rest)


def recover_decisions(t, stream, sdoctypes, max_results=256, max_steps=200000):
    """All assignments of FLAT/BREAK to the groups of a classic-algebra term that reproduce the
    stream.  Returns list of lists of Decision.  Raises TooAmbiguous beyond the caps."""
    SLine = sdoctypes.SLine
    n = len(stream)
    results = []
    steps = [0]

    def run(stack, pos, col, recs):
        while stack is not None:
            steps[0] += 1
            if steps[0] > max_steps:
                raise TooAmbiguous()
            (indent, mode, t), stack = stack
            k = t[0]
            if k == 't':
                if t[1] == '':
                    continue
                if pos < n and stream[pos] == t[1]:
                    pos += 1
                    col += len(t[1])
                else:
                    return
            elif k == 'hard' or (k in ('line', 'soft') and mode == BREAK):
                if pos < n and isinstance(stream[pos], SLine) and stream[pos].indent == indent:
                    pos += 1
                    col = indent
                else:
                    return
            elif k == 'line':
                if pos < n and stream[pos] == ' ':
                    pos += 1
                    col += 1
                else:
                    return
            elif k == 'soft':
                pass
            elif k == 'cat':
                for x in reversed(t[1]):
                    stack = ((indent, mode, x), stack)
            elif k == 'nest':
                stack = ((indent + t[1], mode, t[2]), stack)
            elif k == 'align':
                stack = ((col, mode, t[1]), stack)
            elif k == 'ab':
                stack = ((indent, BREAK, t[1]), stack)
            elif k == 'grp':
                for dec in (FLAT, BREAK):
                    rec = Decision(t, dec == FLAT, pos, col, indent, stack)
                    run(((indent, dec, t[1]), stack), pos, col, recs + [rec])
                    if len(results) > max_results:
                        raise TooAmbiguous()
                return
            else:
                raise ValueError('not classic: %r' % (t,))
        if pos == n:
            results.append(recs)

    run(((0, BREAK, t), None), 0, 0, [])
    return results


def has_direct_choice(t):
    """a line/soft not under a nested grp/ab: the group's own mode is observable"""
    k = t[0]
    if k in ('line', 'soft'):
        return True
    if k == 'cat':
        return any(has_direct_choice(x) for x in t[1])
    if k == 'nest':
        return has_direct_choice(t[2])
    if k == 'align':
        return has_direct_choice(t[1])
    return False


def line_end_col(stream, pos, sdoctypes):
    """end column (untrimmed) of the output line on which stream position `pos` sits"""
    SLine = sdoctypes.SLine
    i = pos
    while i > 0 and not isinstance(stream[i - 1], SLine):
        i -= 1
    col = stream[i - 1].indent if i > 0 else 0
    j = i
    while j < len(stream) and not isinstance(stream[j], SLine):
        if isinstance(stream[j], str):
            col += len(stream[j])
        j += 1
    return col


def any_ab(t):
    k = t[0]
    if k == 'ab':
        return True
    if k == 'cat':
        return any(any_ab(x) for x in t[1])
    if k == 'nest':
        return any_ab(t[2])
    if k in ('align', 'grp'):
        return any_ab(t[1])
    return False


def ref_fits(width, ribbon, strategy, dec):
    """Independent look-ahead written from the statement of C06.

    Would laying the group of `dec` (and what follows it on the same line) out FLAT stay within the
    available page/ribbon width - and, for the smart strategy, would the following more deeply
    indented lines stay within the page?  Returns (fits, reason)."""
    outcol, indent = dec.col, dec.indent
    avail = min(width - outcol, indent + ribbon - outcol)
    min_nest = min(outcol, indent)
    remaining = avail
    col = outcol
    stack = ((indent, FLAT, dec.term[1]), dec.stack)
    while remaining >= 0:
        if stack is None:
            return True, 'end'
        (ind, mode, t), stack = stack
        k = t[0]
        if k == 't':
            remaining -= len(t[1])
            col += len(t[1])
        elif k == 'ab' or (k in ('cat', 'nest', 'align', 'grp') and any_ab(t)):
            # a forced-break document starts later on the same line (read broadly)
            return False, 'forced'
        elif k == 'cat':
            for x in reversed(t[1]):
                stack = ((ind, mode, x), stack)
        elif k == 'nest':
            stack = ((ind + t[1], mode, t[2]), stack)
        elif k == 'align':
            stack = ((col, mode, t[1]), stack)
        elif k == 'grp':
            stack = ((ind, FLAT, t[1]), stack)
        elif k == 'hard' or (k in ('line', 'soft') and mode == BREAK):
            if strategy == 'smart' and ind > min_nest:
                remaining = width - ind
                col = ind
            else:
                return True, 'eol'
        elif k == 'line':
            remaining -= 1
            col += 1
        elif k == 'soft':
            pass
        else:
            raise ValueError(t)
    return False, 'overflow'
