"""setup_cmd: verify (or install offline) what the checks need."""
import sys

from . import core


def main():
    core.ensure_deps(verbose=True)
    import hypothesis
    pp = core.import_package()
    print('hypothesis', hypothesis.__version__, '| prettyprinter from', pp.__file__, '| python', sys.version.split()[0])
    return 0


if __name__ == '__main__':
    sys.exit(main())
