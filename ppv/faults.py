"""Instrumented user types for fault injection (C14)."""
from prettyprinter import register_pretty
from prettyprinter.prettyprinter import build_fncall, pretty_python_value


class Injected(Exception):
    """a custom Exception subclass"""


EXC = {'ValueError': ValueError, 'TypeError': TypeError, 'KeyError': KeyError, 'AttributeError': AttributeError,
       'RuntimeError': RuntimeError, 'ZeroDivisionError': ZeroDivisionError, 'Injected': Injected,
       'StopIteration': StopIteration, 'AssertionError': AssertionError, 'OSError': OSError}


class FBase:
    """instrumented node without a printer of its own"""

    def __init__(self, tag, children):
        self.tag = tag
        self.children = children
        self.fault = None      # (exception name, 'before' | 'after'[, n]): with n, only the n-th invocation within one print fails
        self.fired = 0
        self.badret = None     # object to return instead of a document
        self.calls = 0

    def __repr__(self):
        return '<%s %s>' % (type(self).__name__, self.tag)


class FNode(FBase):
    """printer registered for the class"""


class FNode2(FNode):
    """its printer does not take trailing_comment"""


class FDictNode(FNode, dict):
    """a dict subclass with the built-in repr (keys not in sorted order) and a printer of its own"""
    __repr__ = dict.__repr__
    __hash__ = object.__hash__

    def __init__(self, tag, children):
        FNode.__init__(self, tag, children)
        dict.__init__(self)
        self['zeta'] = tag
        self['alpha'] = 0


class FReprNode(FNode):
    """the documented idiom __repr__ = pretty_repr: the fallback repr of a failing printer re-enters the package"""
    from prettyprinter import pretty_repr as __repr__


class ReprLeaf:
    def __init__(self, text):
        self.text = text

    def __repr__(self):
        return self.text


def _doc(value, ctx, trailing_comment):
    value.calls += 1
    if value.badret is not None:
        return value.badret[0]
    active = value.fault is not None and (len(value.fault) < 3 or value.fault[2] is None or value.calls == value.fault[2])
    if active:
        value.fired += 1
    if active and value.fault[1] == 'before':
        # (the message is hostile to str.format on purpose)
        raise EXC[value.fault[0]]('injected before {x} {0} {{y}} { %s')
    nested = ctx.nested_call()
    argdocs = [pretty_python_value(c, nested) for c in value.children]
    kwargdocs = [('tag', pretty_python_value(value.tag, nested))]
    doc = build_fncall(ctx, type(value), argdocs=argdocs, kwargdocs=kwargdocs, trailing_comment=trailing_comment)
    if active and value.fault[1] == 'after':
        raise EXC[value.fault[0]]("injected after {'k': {1, 2}} %d {")
    return doc


@register_pretty(FNode)
def pretty_fnode(value, ctx, trailing_comment=None):
    return _doc(value, ctx, trailing_comment)


@register_pretty(FNode2)
def pretty_fnode2(value, ctx):
    return _doc(value, ctx, None)


@register_pretty(FDictNode)
def pretty_fdict(value, ctx, trailing_comment=None):
    return _doc(value, ctx, trailing_comment)


@register_pretty(FReprNode)
def pretty_freprnode(value, ctx, trailing_comment=None):
    return _doc(value, ctx, trailing_comment)


class FObjNode(FNode):
    """its printer is a callable OBJECT (no __qualname__ of its own), not a function"""


class ObjPrinter:
    def __call__(self, value, ctx, trailing_comment=None):
        return _doc(value, ctx, trailing_comment)


register_pretty(FObjNode)(ObjPrinter())


class FPredNode(FBase):
    """its printer is registered through a predicate (it takes no trailing comment)"""


@register_pretty(predicate=lambda v: type(v) is FPredNode)
def pretty_fpred(value, ctx):
    return _doc(value, ctx, None)


@register_pretty(predicate=lambda v: type(v) is FPredNode)
def pretty_fpred_second(value, ctx):
    # a second, later registered predicate accepting the same values: never used (the first accepting predicate wins,
    # also when its printer fails)
    return 'SECOND-PREDICATE-PRINTER'


class FLazyBase(FNode):
    """printer registered by NAME for this base class; instances are of the subclass FLazySub, so the printer is
    promoted through the superclass walk on first use"""


class FLazySub(FLazyBase):
    pass


@register_pretty('ppv.faults.FLazyBase')
def pretty_flazy(value, ctx, trailing_comment=None):
    return _doc(value, ctx, trailing_comment)


@register_pretty(ReprLeaf)
def pretty_reprleaf(value, ctx, trailing_comment=None):
    # the fallback document is the bare repr string; a trailing comment is not rendered on that path
    return value.text


class Flaky:
    """prints as FLAKY<k>; while Flaky.broken is set its printer returns a non-document, so pformat raises"""
    broken = False

    def __init__(self, k):
        self.k = k

    def __repr__(self):
        return 'Flaky(%r)' % (self.k,)


@register_pretty(Flaky)
def pretty_flaky(value, ctx):
    if Flaky.broken:
        return 5
    return 'FLAKY<%s>' % (value.k,)


class ReprRaises:
    """has a registered printer; its own __repr__ raises (something other than SyntaxError)"""

    def __init__(self, k):
        self.k = k

    def __repr__(self):
        raise RuntimeError('this object has no repr')

    def __eq__(self, other):
        return type(other) is ReprRaises and other.k == self.k

    def __hash__(self):
        return hash(self.k)


@register_pretty(ReprRaises)
def pretty_reprraises(value, ctx):
    return 'RR<%s>' % (value.k,)


class OpaqueObj:
    """no printer registered; repr is not a Python expression"""

    def __init__(self, k):
        self.k = k

    def __repr__(self):
        return '<opaque %s>' % (self.k,)

    def __eq__(self, other):
        return type(other) is OpaqueObj and other.k == self.k

    def __hash__(self):
        return hash(self.k)


class PredThing:
    """printed through a VALUE-dependent predicate: only instances with .flag set are accepted"""

    def __init__(self, flag, k=0):
        self.flag = flag
        self.k = k

    def __repr__(self):
        return 'PredThing(%r, %r)' % (self.flag, self.k)


@register_pretty(predicate=lambda v: isinstance(v, PredThing) and v.flag)
def pretty_predthing(value, ctx):
    return 'PRED<%s>' % (value.k,)
