#!/bin/sh
# usage: ppv/seedround.sh <round> <agent> <n>
# Independent confirmation of a sub-agent's seeded change /tmp/r<round>-<agent>/out/<n>/{patch.diff,demo.py,note.json}:
# demo on the clean tree / with the patch, pinned baseline with the patch, the quick tier of the check of every
# property the author named.  A confirmed change (demo 0 / non-0, baseline passes) is kept as seeded/r<round>-<agent>-<n>/.
R=$1; A=$2; N=$3
SRC=/tmp/r$R-$A/out/$N
ID=r$R-$A-$N
[ -f "$SRC/patch.diff" ] && [ -f "$SRC/demo.py" ] && [ -f "$SRC/note.json" ] || { echo "$ID incomplete"; exit 2; }
WT=$(mktemp -d /tmp/ppv-confirm.XXXXXX); rmdir "$WT"
git -C /repo worktree add --detach "$WT" HEAD >/dev/null 2>&1 || exit 2
cd "$WT"
PYTHONPATH="$WT" PYTHONHASHSEED=0 timeout 600 /venv/bin/python "$SRC/demo.py" >/dev/null 2>&1; CLEAN_RC=$?
if ! git -C "$WT" apply "$SRC/patch.diff" 2>/dev/null; then
  echo "$ID patch does not apply"; git -C /repo worktree remove --force "$WT"; exit 2
fi
PYTHONPATH="$WT" PYTHONHASHSEED=0 timeout 600 /venv/bin/python "$SRC/demo.py" >/dev/null 2>&1; PATCHED_RC=$?
/verif/ppv/baseline.sh "$WT" > "$WT/.baseline.log" 2>&1; BASE_RC=$?
BASE_LINE=$(tail -1 "$WT/.baseline.log")
cd /verif
PROPS=$(python3 -c "import json;print(' '.join(json.load(open('$SRC/note.json'))['properties']))")
: > "$WT/.checks.log"
for P in $PROPS; do
  OUT=$(PPV_REPO="$WT" PPV_EVIDENCE_DIR="$WT/.evidence" PPV_FOUND_DIR="$WT/.found" timeout 1500 /venv/bin/python -m ppv.run "$P" --tier quick 2>&1)
  RC=$?
  printf '%s\t%s\t%s\n' "$P" "$RC" "$(echo "$OUT" | grep -E '^---' | head -1 | cut -c1-200)" >> "$WT/.checks.log"
done
if [ "$CLEAN_RC" = 0 ] && [ "$PATCHED_RC" != 0 ] && [ "$BASE_RC" = 0 ]; then
  mkdir -p seeded/$ID
  cp "$SRC/patch.diff" "$SRC/demo.py" seeded/$ID/
  python3 - "$SRC/note.json" "$WT/.checks.log" "$ID" "$R" "$CLEAN_RC" "$PATCHED_RC" "$BASE_LINE" "$(git -C /repo rev-parse --short HEAD)" <<'PY'
import json, sys
note = json.load(open(sys.argv[1])); ident = sys.argv[3]
det = []
for line in open(sys.argv[2]):
    p, rc, first = (line.rstrip('\n').split('\t') + ['', ''])[:3]
    det.append({'check': p, 'tier': 'quick', 'exit': int(rc), 'first_violation': first.lstrip('- ')})
meta = {
    'property': note['properties'][0], 'properties_claimed_by_author': note['properties'], 'round': int(sys.argv[4]),
    'change': note['change'], 'needs_to_manifest': note['needs'],
    'origin': 'independent sub-agent (round %s) given the statements of all twenty properties, one-line descriptions of the earlier seeded changes to avoid, a focus area, and a scratch git worktree (nothing from /verif)' % sys.argv[4],
    'applies_to': 'tommikaikkonen/prettyprinter at /repo HEAD %s (git -C /repo apply seeded/%s/patch.diff)' % (sys.argv[8], ident),
    'confirmed_by_me': {'demo_on_clean_tree_rc': int(sys.argv[5]), 'demo_with_patch_rc': int(sys.argv[6]),
                        'pinned_suite_with_patch': sys.argv[7],
                        'commands': ['ppv/seedround.sh %s %s %s' % tuple(ident[1:].split('-'))]},
    'as_found': [d for d in det],
    'detected_by': [d for d in det if d['exit'] == 1],
}
json.dump(meta, open('/verif/seeded/%s/meta.json' % ident, 'w'), indent=1)
PY
  KEPT=kept
else
  KEPT=REJECTED
fi
echo "$ID $KEPT clean=$CLEAN_RC patched=$PATCHED_RC base=$BASE_RC [$PROPS] $(tr '\t\n' ' |' < "$WT/.checks.log")"
git -C /repo worktree remove --force "$WT"
