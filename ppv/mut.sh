#!/bin/sh
# usage: ppv/mut.sh <check-id> <file-relative-to-/repo> <python-expr-old> <new>   (exact single replacement, reverted afterwards)
ID=$1; F=$2; OLD=$3; NEW=$4
cd /repo || exit 2
if [ -n "$(git status --porcelain)" ]; then echo "repo dirty"; exit 2; fi
python3 - "$F" "$OLD" "$NEW" <<'PY'
import sys
f, old, new = sys.argv[1:4]
s = open(f).read()
n = s.count(old)
assert n == 1, 'pattern occurs %d times' % n
open(f, 'w').write(s.replace(old, new))
PY
RC=$?
if [ $RC -ne 0 ]; then git checkout -- .; exit 2; fi
cd /verif && /venv/bin/python -m ppv.run $ID --tier ${TIER:-quick} 2>&1 | grep -E "^(VIOLATION|HARNESS|---|C[0-9]+ )" | cut -c1-300 | head -${LINES_MAX:-8}
cd /repo && git checkout -- .
rm -rf /verif/replays/found
