#!/bin/sh
# Runs the repository's pinned suite and compares with BASELINE.json's stable_pass list.
# usage: ppv/baseline.sh [repo-dir]   (exit 0 iff every stable_pass test passed)
REPO=${1:-/repo}
OUT=$(mktemp /tmp/ppv-baseline.XXXXXX.xml)
cd "$REPO" && /venv/bin/python -m pytest -ra -q -p no:cacheprovider --timeout=900 --continue-on-collection-errors --junitxml="$OUT" >/dev/null 2>&1
/venv/bin/python - "$OUT" <<'PY'
import json, sys, xml.etree.ElementTree as ET
base = json.load(open('/root/.vp/BASELINE.json'))
passed = set()
for tc in ET.parse(sys.argv[1]).getroot().iter('testcase'):
    if not any(ch.tag in ('failure', 'error', 'skipped') for ch in tc):
        passed.add('%s::%s' % (tc.get('classname'), tc.get('name')))
missing = [t for t in base['stable_pass'] if t not in passed]
print('passed', len(passed), 'baseline', len(base['stable_pass']), 'missing', missing)
sys.exit(1 if missing else 0)
PY
RC=$?
rm -f "$OUT"
exit $RC
