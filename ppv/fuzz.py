"""Coverage-guided complement (thorough tiers): atheris drives the Hypothesis strategy of a check through
`fuzz_one_input`, with the package instrumented for coverage.

    python -m ppv.fuzz <ID> --runs N --seed S --stats FILE

One process = one libFuzzer campaign from an empty corpus (plus, with --corpus, the committed replay cases are
not needed: Hypothesis' own byte format is opaque).  The semantic oracle runs inside the target; a violation is
written as a replay file (PPV_FOUND_DIR) before the process dies.  Exit 0 = no violation within the budget,
exit 1 = violation found, exit 3 = atheris not available (the caller records that and goes on).
"""
import argparse
import json
import os
import sys
import tempfile

from . import core


def ensure_atheris():
    core.ensure_paths()
    try:
        import atheris  # noqa
        return True
    except ImportError:
        pass
    import subprocess
    import importlib
    os.makedirs(core.DEPS_DIR, exist_ok=True)
    r = subprocess.run([sys.executable, '-m', 'pip', 'install', '--no-index', '--find-links', core.WHEELS,
                        '--target', core.DEPS_DIR, 'atheris'], capture_output=True, text=True)
    if core.DEPS_DIR not in sys.path:
        sys.path.append(core.DEPS_DIR)
    importlib.invalidate_caches()
    try:
        import atheris  # noqa
        return True
    except ImportError:
        sys.stderr.write(r.stdout[-500:] + r.stderr[-500:])
        return False


def patch_bytestring_provider():
    """Hypothesis 6.168's BytestringProvider.draw_integer draws `bits` bits and rejects until the raw value lies in
    [min_value, max_value] without adding min_value: any range that starts above 2**bits - 1 (integers(1970, 2100),
    the shuffle of a fixed_dictionaries with >= 4 keys, ...) can never be satisfied and the buffer is consumed to
    the end (every input is reported invalid).  Harness-side correction: offset by min_value."""
    from hypothesis.internal.conjecture import providers

    def draw_integer(self, min_value=None, max_value=None, *, weights=None, shrink_towards=0):
        if min_value is None and max_value is None:
            min_value, max_value = -(2 ** 127), 2 ** 127 - 1
        elif min_value is None:
            min_value = max_value - 2 ** 64
        elif max_value is None:
            max_value = min_value + 2 ** 64
        if min_value == max_value:
            return min_value
        span = max_value - min_value
        bits = span.bit_length()
        v = self._draw_bits(bits)
        while v > span:
            v = self._draw_bits(bits)
        return min_value + v
    providers.BytestringProvider.draw_integer = draw_integer


def main(argv=None):
    ap = argparse.ArgumentParser()
    ap.add_argument('id')
    ap.add_argument('--runs', type=int, default=20000)
    ap.add_argument('--seed', type=int, default=1)
    ap.add_argument('--stats')
    ap.add_argument('--tier', default='thorough')
    ap.add_argument('--workdir', help='directory for the libFuzzer corpus (removed by the caller)')
    args = ap.parse_args(argv)
    if os.environ.get('PYTHONHASHSEED') != '0':
        env = dict(os.environ, PYTHONHASHSEED='0')
        os.execve(sys.executable, [sys.executable, '-m', 'ppv.fuzz'] + sys.argv[1:], env)
    core.ensure_deps()
    if not ensure_atheris():
        print('atheris is not available')
        return 3
    import atheris
    with atheris.instrument_imports(include=['prettyprinter']):
        core.import_package()
        import prettyprinter.pretty_stdlib  # noqa
    check = core.load_check(args.id.upper())
    patch_bytestring_provider()
    from hypothesis import given, settings, HealthCheck
    import warnings
    import hypothesis.errors as herr
    warnings.filterwarnings('ignore', category=herr.HypothesisWarning)
    stats = {'executions': 0, 'valid': 0, 'nontrivial': 0, 'violations': 0}

    def flush():
        if args.stats:
            with open(args.stats + '.tmp', 'w') as f:
                json.dump(stats, f)
            os.replace(args.stats + '.tmp', args.stats)

    @settings(database=None, deadline=None, suppress_health_check=list(HealthCheck), max_examples=10 ** 9)
    @given(check.strategy(args.tier))
    def prop(case):
        stats['valid'] += 1
        res = core.safe_oracle(check, case)
        if res.nontrivial:
            stats['nontrivial'] += 1
        if res.status == core.VIOL:
            stats['violations'] += 1
            path = core.save_replay(check.ID, res.code, res.detail, case)
            stats['replay'] = path
            flush()
            raise AssertionError('%s %s' % (res.code, path))

    fuzz_one = prop.hypothesis.fuzz_one_input

    def target(data):
        stats['executions'] += 1
        if stats['executions'] % 250 == 0:   # (atheris exits with os._exit: nothing runs after Fuzz())
            flush()
        fuzz_one(data)

    corpus = tempfile.mkdtemp(prefix='ppv-fuzz-%s-' % args.id, dir=args.workdir)
    # libFuzzer grows inputs from the empty string very slowly, and Hypothesis rejects buffers that are too short for
    # the strategy: seed the corpus with pseudo-random buffers (a pure function of --seed) of 64..4096 bytes
    import hashlib
    for i in range(48):
        n = 64 << (i % 7)
        buf = b''.join(hashlib.blake2b(b'%d:%d:%d' % (args.seed, i, j), digest_size=64).digest() for j in range(n // 64))
        if i % 3 == 0:
            buf = bytes(b & 0x0f for b in buf)      # small values: short collections, early alternatives
        with open(os.path.join(corpus, 'seed%02d' % i), 'wb') as f:
            f.write(buf)
    largv = [sys.argv[0], '-runs=%d' % args.runs, '-seed=%d' % (args.seed or 1), '-max_len=4096', '-verbosity=0',
             '-print_final_stats=0', '-artifact_prefix=%s/' % corpus, corpus]
    atheris.Setup(largv, target)
    flush()
    try:
        atheris.Fuzz()
    finally:
        flush()
    return 0


if __name__ == '__main__':
    sys.exit(main())
