"""Composite strategies shared by several checks."""
from . import stdvals, vtypes


def named_values(st, names, value, max_size):
    """[[name, value], ...] with distinct names.  The names are drawn as a unique list on their own and the values are
    zipped on: `lists(tuples(name, value), unique_by=...)` rejects duplicates through a filter over the tuple strategy,
    and Hypothesis formats the repr of that strategy - megabytes for a recursive value strategy - into an event string
    for every rejection; thousands of cached examples then exhaust the memory."""
    return st.lists(st.sampled_from(list(names)), max_size=max_size, unique=True).flatmap(
        lambda ns: st.tuples(*[value for _ in ns]).map(lambda vs: [[n, v] for n, v in zip(ns, vs)]))


def sub_strategy(S):
    """subclass instances of the built-in bases (C08 domain)"""
    st = S['st']
    small = st.recursive(S['leaf'], S['value_ext'], max_leaves=4)
    hsh = S['hashable']
    variants = st.sampled_from(list(vtypes.VARIANTS))
    seq = st.lists(small, max_size=4)
    hseq = st.lists(hsh, max_size=4)
    mk = lambda base, inner: st.tuples(variants, inner).map(lambda p: ['sub', base, p[0], p[1]])
    plain_sub = st.one_of(
        st.tuples(variants, st.lists(S['leaf'], max_size=2)).map(lambda p: ['sub', 'list', p[0], ['list', p[1]]]),
        st.tuples(variants, S['r_str']).map(lambda p: ['sub', 'str', p[0], p[1]]),
        st.tuples(variants, S['r_int']).map(lambda p: ['sub', 'int', p[0], p[1]]),
        st.sampled_from(vtypes.INT_ENUM_VALUES).map(lambda v: ['sub', 'int', 'enum', ['int', v]]),
    )
    nested_seq = st.lists(st.one_of(small, plain_sub), max_size=3)
    return st.one_of(
        mk('list', nested_seq.map(lambda xs: ['list', xs])),
        mk('tuple', nested_seq.map(lambda xs: ['tuple', xs])),
        mk('dict', st.lists(st.tuples(hsh, st.one_of(small, plain_sub)).map(list), max_size=3).map(lambda kv: ['dict', kv])),
        mk('list', seq.map(lambda xs: ['list', xs])),
        mk('tuple', seq.map(lambda xs: ['tuple', xs])),
        mk('set', hseq.map(lambda xs: ['set', xs])),
        mk('frozenset', hseq.map(lambda xs: ['fset', xs])),
        mk('dict', st.lists(st.tuples(hsh, small).map(list), max_size=4).map(lambda kv: ['dict', kv])),
        mk('str', S['r_str']),
        mk('bytes', S['r_bytes']),
        st.tuples(st.sampled_from(['ci', 'eqonly']), S['r_str']).map(lambda p: ['sub', 'str', p[0], p[1]]),
        st.tuples(st.sampled_from(['ci', 'eqonly']), S['r_bytes']).map(lambda p: ['sub', 'bytes', p[0], p[1]]),
        mk('int', S['r_int']),
        mk('float', S['r_float']),
        st.sampled_from(vtypes.INT_ENUM_VALUES).map(lambda v: ['sub', 'int', 'enum', ['int', v]]),
        st.sampled_from(vtypes.STR_ENUM_VALUES).map(lambda v: ['sub', 'str', 'enum', ['str', v]]),
    )


def call_strategy(S, arg=None):
    st = S['st']
    arg = arg if arg is not None else st.recursive(S['leaf'], S['value_ext'], max_leaves=5)
    names = st.sampled_from(['a', 'b', 'kw', 'name', 'value', 'x1', 'é', 'zz'])
    kwargs = named_values(st, ['a', 'b', 'kw', 'name', 'value', 'x1', 'é', 'zz'], arg, 3)
    return st.tuples(st.sampled_from(['box', 'alt', 'inner']), st.lists(arg, max_size=3), kwargs).map(
        lambda p: ['call', p[0], p[1], p[2]])


def std_any(S):
    st = S['st']
    parts = stdvals.std_strategy(S)
    return st.one_of(*[parts[k] for k in sorted(parts)])


def any_value(S, comments=False, std=True):
    """built-in trees whose leaves may also be subclass instances, call-style objects and stdlib instances"""
    st = S['st']
    special = [sub_strategy(S), call_strategy(S)]
    if std:
        special.append(std_any(S))
    leaf = st.one_of(S['leaf'], S['leaf'], *special)

    def ext(ch):
        opts = [
            st.lists(ch, max_size=4).map(lambda xs: ['list', xs]),
            st.lists(ch, max_size=3).map(lambda xs: ['tuple', xs]),
            st.lists(st.tuples(S['hashable'], ch).map(list), max_size=3).map(lambda kv: ['dict', kv]),
            st.lists(S['hashable'], max_size=3).map(lambda xs: ['set', xs]),
        ]
        if comments:
            opts.append(st.tuples(comment_text(S), ch).map(lambda p: ['cmt', p[0], p[1]]))
        return st.one_of(*opts)
    return st.recursive(leaf, ext, max_leaves=10)


COMMENT_ALPHABET = ['a', 'bb', ' ', '\n', '#', "'", '"', '(', ')', '[', ',', ':', '\\', 'é', '\r', '\r\n', '\x0c', '\x0b', '\u2028', '\x85']


def comment_text(S):
    st = S['st']
    adv = st.lists(st.sampled_from(COMMENT_ALPHABET), min_size=1, max_size=12).map(''.join)
    words = st.lists(st.sampled_from(['word', 'x', 'lorem', 'ipsum', '#tag', "it's", '(paren)', 'a,b', 'k: v']), min_size=1, max_size=12).map(' '.join)
    printable = st.text(alphabet=st.characters(min_codepoint=32, max_codepoint=126), min_size=1, max_size=30)
    multi = st.lists(st.one_of(words, st.just(''), st.just('  '), adv), min_size=2, max_size=4).map('\n'.join)
    return st.one_of(adv, words, printable, multi)
