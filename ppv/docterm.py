"""Document terms: a JSON representation of documents over the public combinators.

  ["t", s] ["cat", [d..]] ["nest", i, d] ["grp", d] ["line"] ["soft"] ["hard"]
  ["fc", broken, flat] ["ab", d] ["fill", [d..]] ["align", d] ["hang", i, d] ["ann", a, d]

Annotations `a`: an int k (opaque object number k) or ["tok", NAME] (prettyprinter.syntax.Token member).
"""
import itertools


class Opaque:
    __slots__ = ('k',)

    def __init__(self, k):
        self.k = k

    def __repr__(self):
        return 'Opaque(%r)' % (self.k,)


def build(t, anns=None):
    """term -> (document, {ann key -> object}); only prettyprinter.doc is used."""
    from prettyprinter import doc as D
    if anns is None:
        anns = {}

    def ann_obj(a):
        key = repr(a)
        if key not in anns:
            if isinstance(a, list) and a[0] == 'tok':
                from prettyprinter.syntax import Token
                anns[key] = Token[a[1]]
            elif isinstance(a, list) and a[0] == 'raw':
                # arbitrary annotation values are allowed: plain ints (equal to Token members!), unhashable values
                anns[key] = {'int3': 3, 'int6': 6, 'int14': 14, 'list': ['x'], 'dict': {'k': 1}, 'str': 'LITERAL_STRING', 'none': None}[a[1]]
            else:
                anns[key] = Opaque(a)
        return anns[key]

    def b(t):
        k = t[0]
        if k == 't':
            return t[1]
        if k == 'cat':
            return D.concat([b(x) for x in t[1]])
        if k == 'nest':
            return D.nest(t[1], b(t[2]))
        if k == 'grp':
            return D.group(b(t[1]))
        if k == 'line':
            return D.LINE
        if k == 'soft':
            return D.SOFTLINE
        if k == 'hard':
            return D.HARDLINE
        if k == 'fc':
            return D.flat_choice(when_broken=b(t[1]), when_flat=b(t[2]))
        if k == 'ab':
            return D.always_break(b(t[1]))
        if k == 'fill':
            return D.fill([b(x) for x in t[1]])
        if k == 'align':
            return D.align(b(t[1]))
        if k == 'hang':
            return D.hang(t[1], b(t[2]))
        if k == 'ann':
            return D.annotate(ann_obj(t[1]), b(t[2]))
        raise ValueError(t)
    return b(t), anns


def children(t):
    k = t[0]
    if k in ('cat', 'fill'):
        return list(t[1])
    if k in ('nest', 'hang', 'ann'):
        return [t[2]]
    if k in ('grp', 'ab', 'align'):
        return [t[1]]
    if k == 'fc':
        return [t[1], t[2]]
    return []


def size(t):
    return 1 + sum(size(c) for c in children(t))


def kinds(t, acc=None):
    if acc is None:
        acc = set()
    acc.add(t[0])
    for c in children(t):
        kinds(c, acc)
    return acc


def count_kind(t, k):
    return (1 if t[0] == k else 0) + sum(count_kind(c, k) for c in children(t))


# ---------------------------------------------------------------------------
# bounded-exhaustive enumeration

FULL_LEAVES = [['t', 'a'], ['t', 'bb'], ['t', ' '], ['t', ''], ['line'], ['soft'], ['hard']]
CLASSIC_LEAVES = [['t', 'a'], ['t', 'bbb'], ['line'], ['soft'], ['hard']]


def enum_terms(n, leaves, unary, nary, _memo=None):
    """all terms with exactly n nodes.
    unary: list of functions child -> term; nary: list of (arity, function(children) -> term)"""
    if _memo is None:
        _memo = {}
    key = n
    if key in _memo:
        return _memo[key]
    out = []
    if n == 1:
        out.extend(leaves)
        for ar, f in nary:
            if ar == 0:
                out.append(f([]))
    else:
        for f in unary:
            for c in enum_terms(n - 1, leaves, unary, nary, _memo):
                out.append(f(c))
        for ar, f in nary:
            if ar == 0 or n - 1 < ar:
                continue
            for parts in _compositions(n - 1, ar):
                pools = [enum_terms(p, leaves, unary, nary, _memo) for p in parts]
                for kids in itertools.product(*pools):
                    out.append(f(list(kids)))
    _memo[key] = out
    return out


def _compositions(n, k):
    if k == 1:
        yield (n,)
        return
    for first in range(1, n - k + 2):
        for rest in _compositions(n - first, k - 1):
            yield (first,) + rest


FULL_UNARY = [
    lambda c: ['nest', 2, c], lambda c: ['grp', c], lambda c: ['ab', c], lambda c: ['align', c],
    lambda c: ['hang', 2, c], lambda c: ['ann', 0, c],
]
FULL_NARY = [
    (2, lambda cs: ['cat', cs]), (3, lambda cs: ['cat', cs]), (2, lambda cs: ['fc', cs[0], cs[1]]),
    (2, lambda cs: ['fill', cs]), (3, lambda cs: ['fill', cs]),
    # degenerate arities: empty and one-element concat / fill (normalisation special-cases them)
    (0, lambda cs: ['cat', []]), (0, lambda cs: ['fill', []]), (1, lambda cs: ['cat', cs]), (1, lambda cs: ['fill', cs]),
]
CLASSIC_UNARY = [
    lambda c: ['nest', 2, c], lambda c: ['grp', c], lambda c: ['ab', c], lambda c: ['align', c],
]
CLASSIC_NARY = [(2, lambda cs: ['cat', cs]), (3, lambda cs: ['cat', cs])]


def all_terms_upto(n, classic=False):
    leaves, unary, nary = (CLASSIC_LEAVES, CLASSIC_UNARY, CLASSIC_NARY) if classic else (FULL_LEAVES, FULL_UNARY, FULL_NARY)
    memo = {}
    for k in range(1, n + 1):
        for t in enum_terms(k, leaves, unary, nary, memo):
            yield t


# ---------------------------------------------------------------------------
# random terms

def term_strategy(classic=False, max_leaves=14, texts=None, ann_keys=(0, 1, 2)):
    from hypothesis import strategies as st
    if texts is None:
        texts = ['a', 'bb', 'ccc', 'dddd', 'eeeeeee'] if classic else ['a', 'bb', 'ccc', 'dddd', 'x', ' ', '', 'eeeeeee', ' y', 'z ', '  ']
    leaf = st.one_of(
        st.sampled_from(texts).map(lambda s: ['t', s]),
        st.sampled_from(texts).map(lambda s: ['t', s]),
        st.just(['line']), st.just(['line']), st.just(['soft']), st.just(['hard']),
    )

    def ext(ch):
        opts = [
            st.lists(ch, min_size=0 if not classic else 1, max_size=4).map(lambda xs: ['cat', xs]),
            st.lists(ch, min_size=1, max_size=4).map(lambda xs: ['cat', xs]),
            st.tuples(st.sampled_from([0, 1, 2, 4]), ch).map(lambda p: ['nest', p[0], p[1]]),
            ch.map(lambda c: ['grp', c]),
            ch.map(lambda c: ['grp', c]),
            ch.map(lambda c: ['ab', c]),
            ch.map(lambda c: ['align', c]),
        ]
        if not classic:
            opts += [
                st.tuples(ch, ch).map(lambda p: ['fc', p[0], p[1]]),
                st.lists(ch, max_size=5).map(lambda xs: ['fill', xs]),
                st.tuples(st.sampled_from([0, 2, 3]), ch).map(lambda p: ['hang', p[0], p[1]]),
                st.tuples(st.sampled_from(list(ann_keys)), ch).map(lambda p: ['ann', p[0], p[1]]),
            ]
        return st.one_of(*opts)
    return st.recursive(leaf, ext, max_leaves=max_leaves)


def shrink_candidates(t):
    k = t[0]
    if k in ('cat', 'fill'):
        items = t[1]
        for i in range(len(items)):
            yield [k, items[:i] + items[i + 1:]]
        for i in range(len(items)):
            yield items[i]
        for i in range(len(items)):
            for v in shrink_candidates(items[i]):
                yield [k, items[:i] + [v] + items[i + 1:]]
    elif k in ('nest', 'hang', 'ann'):
        yield t[2]
        for v in shrink_candidates(t[2]):
            yield [k, t[1], v]
    elif k in ('grp', 'ab', 'align'):
        yield t[1]
        for v in shrink_candidates(t[1]):
            yield [k, v]
    elif k == 'fc':
        yield t[1]
        yield t[2]
        for v in shrink_candidates(t[1]):
            yield [k, v, t[2]]
        for v in shrink_candidates(t[2]):
            yield [k, t[1], v]
    elif k == 't' and len(t[1]) > 1:
        yield ['t', t[1][:1]]


def shrink(t, bad, limit=400):
    n = 0
    improved = True
    while improved and n < limit:
        improved = False
        for v in shrink_candidates(t):
            n += 1
            if n > limit:
                break
            try:
                if bad(v):
                    t = v
                    improved = True
                    break
            except Exception:
                pass
    return t
