"""Namespace for dynamically created classes (dataclasses / attrs definitions of C17): ppv.dyn.<name>."""
import dataclasses as _dc

import attr as _attr


@_dc.dataclass
class DInner:
    x: object = 0
    y: list = _dc.field(default_factory=list)


@_dc.dataclass(frozen=True)
class DFrozen:
    a: object = None
    b: object = 'b'


@_attr.s
class AInner:
    x = _attr.ib(default=0)
    y = _attr.ib(factory=list)


for _c in (DInner, DFrozen, AInner):
    _c.__module__ = 'ppv.dyn'

INNER = {'DInner': DInner, 'DFrozen': DFrozen, 'AInner': AInner}


def build_inst(r, build):
    # ['dcinst', class name, [positional field recipes]]
    return INNER[r[1]](*[build(x) for x in r[2]])
