"""Namespace for dynamically created classes (dataclasses / attrs definitions of C17): ppv.dyn.<name>."""
