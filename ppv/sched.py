"""Deterministic line-level scheduler for threads running code of the prettyprinter package.

Exactly one thread runs at a time.  A schedule is a list of segments (thread, n): the thread executes n source
lines *of the package* (lines elsewhere are free) and is then pre-empted just before its next package line.  After
the listed segments every unfinished thread runs to completion, in thread order.  A run is a pure function of
(programs, schedule).  Lines are counted thread-locally; a hand-over to the controller happens only when a
segment is used up.
"""
import os
import sys
import threading

INF = 10 ** 12
WINDOW_FUNCS = ('is_registered', 'register_pretty', 'decorator')


class Deadlock(Exception):
    pass


class Run:
    def __init__(self, programs, schedule, record=False, timeout=60):
        import prettyprinter
        self.pkg = os.path.dirname(os.path.realpath(prettyprinter.__file__)) + os.sep
        self.programs = programs
        self.schedule = [(int(t), int(k)) for t, k in schedule]
        self.n = len(programs)
        self.sems = [threading.Semaphore(0) for _ in programs]
        self.ctrl = threading.Semaphore(0)
        self.rem = [[0] for _ in programs]
        self.done = [False] * self.n
        self.results = [None] * self.n
        self.lines = [0] * self.n
        self.record = record
        self.trace = [[] for _ in programs]      # (func name) per executed package line, if record
        self.preempt_in_window = 0
        self.preemptions = 0
        self.timeout = timeout
        self._known = {}

    def _in_pkg(self, code):
        k = self._known.get(code)
        if k is None:
            fn = code.co_filename
            k = self._known[code] = bool(fn) and not fn.startswith('<') and os.path.realpath(fn).startswith(self.pkg)
        return k

    def _make_tracer(self, tid):
        rem = self.rem[tid]
        sem = self.sems[tid]

        def local(frame, event, arg):
            if event == 'line':
                if rem[0] <= 0:
                    # pre-empted here, before this line runs
                    self.preemptions += 1
                    f = frame
                    while f is not None:
                        if f.f_code.co_name in WINDOW_FUNCS and self._in_pkg(f.f_code):
                            self.preempt_in_window += 1
                            break
                        f = f.f_back
                    self.ctrl.release()
                    sem.acquire()
                rem[0] -= 1
                self.lines[tid] += 1
                if self.record:
                    self.trace[tid].append(frame.f_code.co_name)
            return local

        def glob(frame, event, arg):
            if event == 'call' and self._in_pkg(frame.f_code):
                return local
            return None
        return glob

    def _thread(self, tid):
        self.sems[tid].acquire()
        sys.settrace(self._make_tracer(tid))
        try:
            out = []
            for fn in self.programs[tid]:
                try:
                    out.append(('ok', fn()))
                except BaseException as e:   # reported as a violation by the caller
                    out.append(('exc', type(e).__name__, str(e)[:120]))
            self.results[tid] = out
        finally:
            sys.settrace(None)
            self.done[tid] = True
            self.ctrl.release()

    def _grant(self, tid, k):
        self.rem[tid][0] = k
        self.sems[tid].release()
        if not self.ctrl.acquire(timeout=self.timeout):
            raise Deadlock('thread %d did not yield within %ds' % (tid, self.timeout))

    def go(self):
        threads = [threading.Thread(target=self._thread, args=(i,), daemon=True) for i in range(self.n)]
        for t in threads:
            t.start()
        for tid, k in self.schedule:
            if 0 <= tid < self.n and not self.done[tid]:
                self._grant(tid, k)
        for tid in range(self.n):
            while not self.done[tid]:
                self._grant(tid, INF)
        for t in threads:
            t.join(10)
        return self.results
