#!/bin/sh
# usage: ppv/seedconfirm.sh <Cxx> <n>   - independent confirmation of a sub-agent's seeded change /tmp/seed/out/Cxx/patch<n>.diff
# Writes /tmp/seed/confirm/Cxx-<n>.json : demo with/without the patch, pinned baseline with the patch, own checks.
ID=$1; N=$2
OUT=${SEED_OUT:-/tmp/seed/out}/$ID
PATCH=$OUT/patch$N.diff; DEMO=$OUT/demo$N.py
mkdir -p ${SEED_CONFIRM:-/tmp/seed/confirm}
RES=${SEED_CONFIRM:-/tmp/seed/confirm}/$ID-$N.json
WT=$(mktemp -d /tmp/ppv-confirm.XXXXXX); rmdir "$WT"
git -C /repo worktree add --detach "$WT" HEAD >/dev/null 2>&1 || exit 2
cd "$WT"
PYTHONPATH="$WT" timeout 600 /venv/bin/python "$DEMO" >/dev/null 2>&1; CLEAN_RC=$?
if ! git -C "$WT" apply "$PATCH" 2>/dev/null; then
  echo "{\"id\": \"$ID\", \"n\": $N, \"applies\": false}" > "$RES"; git -C /repo worktree remove --force "$WT"; exit 0
fi
PYTHONPATH="$WT" timeout 600 /venv/bin/python "$DEMO" >/dev/null 2>&1; PATCHED_RC=$?
/verif/ppv/baseline.sh "$WT" > "$WT/.baseline.log" 2>&1; BASE_RC=$?
BASE_LINE=$(tail -1 "$WT/.baseline.log" | tr -d '"' | cut -c1-200)
cd /verif
CHK=$(PPV_REPO="$WT" PPV_EVIDENCE_DIR="$WT/.evidence" PPV_FOUND_DIR="$WT/.found" timeout 1500 /venv/bin/python -m ppv.run "$ID" --tier quick 2>&1)
CHK_RC=$?
CHK_LINE=$(echo "$CHK" | grep -E '^---' | head -1 | cut -c1-240 | tr -d '"\\' | tr -d '\000-\011\013-\037')
printf '{"id": "%s", "n": %s, "applies": true, "demo_clean_rc": %s, "demo_patched_rc": %s, "baseline_rc": %s, "baseline": "%s", "check_rc": %s, "check_line": "%s"}\n' \
  "$ID" "$N" "$CLEAN_RC" "$PATCHED_RC" "$BASE_RC" "$BASE_LINE" "$CHK_RC" "$CHK_LINE" > "$RES"
git -C /repo worktree remove --force "$WT"
cat "$RES"
