"""Importable user types used by generated values (qualified names must evaluate).

Printed names look like ``ppv.vtypes.List_plain`` - evaluate with ENV.
"""
import enum
import sys

from prettyprinter import register_pretty, pretty_call, pretty_call_alt

BASES = {'list': list, 'tuple': tuple, 'set': set, 'frozenset': frozenset, 'dict': dict,
         'str': str, 'bytes': bytes, 'int': int, 'float': float}
VARIANTS = ('plain', 'repr', 'str')

_mod = sys.modules[__name__]
SUBCLASSES = {}


def _make(base_name, base, variant):
    name = '%s_%s' % (base_name.capitalize(), variant)
    ns = {'__module__': __name__, '__qualname__': name}
    if variant == 'repr':
        ns['__repr__'] = lambda self: '<<%s %s>>' % (name, 'custom repr \' " \\')
    elif variant == 'str':
        ns['__str__'] = lambda self: '<<%s custom str>>' % name
    cls = type(name, (base,), ns)
    setattr(_mod, name, cls)
    SUBCLASSES[(base_name, variant)] = cls
    return cls


for _bn, _b in BASES.items():
    for _v in VARIANTS:
        _make(_bn, _b, _v)


def _make_eq(base_name, base, variant):
    """str / bytes subclasses with an equality of their own: 'ci' compares and hashes case-insensitively (differently
    spelled values are equal), 'eqonly' defines __eq__ without __hash__ (instances are unhashable)"""
    name = '%s_%s' % (base_name.capitalize(), variant)
    ns = {'__module__': __name__, '__qualname__': name}
    if variant == 'ci':
        ns['__eq__'] = lambda self, other: isinstance(other, base) and base.lower(self) == base.lower(other)
        ns['__ne__'] = lambda self, other: not (isinstance(other, base) and base.lower(self) == base.lower(other))
        ns['__hash__'] = lambda self: hash(base.lower(self))
    else:
        ns['__eq__'] = lambda self, other: base.__eq__(self, other)
        ns['__hash__'] = None
    cls = type(name, (base,), ns)
    setattr(_mod, name, cls)
    SUBCLASSES[(base_name, variant)] = cls


for _bn in ('str', 'bytes'):
    for _v in ('ci', 'eqonly'):
        _make_eq(_bn, BASES[_bn], _v)


class IntE(enum.IntEnum):
    ZERO = 0
    ONE = 1
    TWO = 2
    NEG = -1
    BIG = 10 ** 20


class StrE(str, enum.Enum):
    EMPTY = ''
    A = 'a'
    QUOTE = "it's"
    DQUOTE = 'say "hi" it\'s'
    LONG = 'lorem ipsum dolor sit amet consectetur adipiscing elit sed do eiusmod tempor'
    NL = 'line\nbreak\\'


SUBCLASSES[('int', 'enum')] = IntE
SUBCLASSES[('str', 'enum')] = StrE
INT_ENUM_VALUES = [m.value for m in IntE]
STR_ENUM_VALUES = [m.value for m in StrE]


def build_sub(r, build):
    _, base, variant, inner = r
    cls = SUBCLASSES[(base, variant)]
    v = build(inner)
    return cls(v)


def base_value(x):
    """the underlying built-in value of a subclass instance"""
    for b in (dict, list, tuple, set, frozenset, str, bytes, float, int):
        if isinstance(x, b):
            if b is dict:
                return dict.copy(x) if type(x) is dict else dict(dict.items(x))
            if b in (int, float):
                return b.__new__(b, x) if type(x) is b else b.__add__(x, b(0)) if b is int else float.__pos__(x)
            if b in (str, bytes):
                return b.__getitem__(x, slice(None)) if type(x) is not b else x
            return b(x)
    raise TypeError(type(x))


# ---------------------------------------------------------------------------
# call-style user types

class Box:
    """Printed through pretty_call(ctx, Box, *args, **kwargs)."""

    def __init__(self, *args, **kwargs):
        self.args = args
        self.kwargs = kwargs

    def __eq__(self, other):
        return type(other) is type(self) and self.args == other.args and self.kwargs == other.kwargs

    def __hash__(self):
        return hash(len(self.args))

    def __repr__(self):
        return 'Box(*%r, **%r)' % (self.args, self.kwargs)

    @classmethod
    def make(cls, *args, **kwargs):
        """a Python classmethod constructor"""
        return cls(*args, **kwargs)


class AltBox(Box):
    """Printed through pretty_call_alt(ctx, AltBox, args=..., kwargs=list of pairs)."""


class Outer:
    class Inner(Box):
        pass


def free_function(*args, **kwargs):
    return ('free_function', args, kwargs)


@register_pretty(Box)
def _pretty_box(value, ctx):
    return pretty_call(ctx, type(value), *value.args, **value.kwargs)


@register_pretty(AltBox)
def _pretty_altbox(value, ctx):
    return pretty_call_alt(ctx, type(value), args=value.args, kwargs=list(value.kwargs.items()))


def build_call(r, build):
    # ['call', kind, [args], [[name, val]..]]
    _, kind, args, kwargs = r
    if kind == 'ns':        # a SimpleNamespace with these attributes (no positional part)
        import types
        return types.SimpleNamespace(**{k: build(v) for k, v in kwargs})
    if kind in STD_CALL_KINDS:
        import collections
        import functools
        import types
        a = [build(x) for x in args]
        kw = [(k, build(v)) for k, v in kwargs]
        if kind == 'deque':
            return collections.deque(a)
        if kind == 'odict':
            return collections.OrderedDict(kw)
        if kind == 'ddict':
            return collections.defaultdict(list, kw)
        if kind == 'mproxy':
            return types.MappingProxyType(dict(kw))
        if kind == 'chainmap':
            return collections.ChainMap(dict(kw), {'zz': 0})
        if kind == 'exc':
            return ValueError(*a)
        if kind == 'tsize':     # os.terminal_size: a struct sequence of two fields (printed with its field names as comments)
            import os
            return os.terminal_size((a + [None, None])[:2])
        if kind == 'partial':
            return functools.partial(free_function, *a, **dict(kw))
    if kind == 'nt':        # a namedtuple with two fields: values from the keyword part, None where missing
        vals = {k: build(v) for k, v in kwargs}
        return PairNT(vals.get('a'), vals.get('b'))
    cls = {'box': Box, 'alt': AltBox, 'inner': Outer.Inner}[kind]
    return cls(*[build(a) for a in args], **{k: build(v) for k, v in kwargs})


# standard-library containers built from the same recipe shape: positional part -> elements / arguments, keyword part -> entries
STD_CALL_KINDS = ('deque', 'odict', 'ddict', 'mproxy', 'chainmap', 'exc', 'partial', 'tsize')
import collections as _coll
PairNT = _coll.namedtuple('PairNT', 'a b')
PairNT.__module__ = __name__


def map_call(r, f):
    _, kind, args, kwargs = r
    return ['call', kind, [f(a) for a in args], [[k, f(v)] for k, v in kwargs]]


def env():
    import ppv
    import types
    import datetime
    import collections
    return {'ppv': ppv, 'types': types, 'datetime': datetime, 'collections': collections}


# ---------------------------------------------------------------------------
# C17: printers that hand information down through the user context (PrettyContext.assoc / get)

class CtxNode:
    """kind 'section': prints its children as they are; 'secret': prints them with mask=True (set through two assoc
    calls, one below the other); 'reveal': prints them with mask=False; 'leaf': prints '***' when masked, else its number"""

    def __init__(self, kind, children=(), n=0):
        self.kind = kind
        self.children = list(children)
        self.n = n


@register_pretty(CtxNode)
def _pretty_ctxnode(value, ctx):
    if value.kind == 'leaf':
        return "'***'" if ctx.get('mask') else str(value.n)
    if value.kind == 'secret':
        ctx = ctx.assoc('level', (ctx.get('level') or 0) + 1).assoc('mask', True)
    elif value.kind == 'reveal':
        ctx = ctx.assoc('mask', False)
    return pretty_call_alt(ctx, value.kind, args=tuple(value.children))


# ---------------------------------------------------------------------------
# C17: arbitrary pretty_call / pretty_call_alt invocations

class CallSpec:
    """printer calls pretty_call / pretty_call_alt with exactly these arguments"""

    def __init__(self, fn, args, kwargs, mode):
        self.fn = fn          # callable or str
        self.args = args      # tuple
        self.kwargs = kwargs  # list of (name, value)
        self.mode = mode      # 'call' | 'alt-list' | 'alt-odict' | 'alt-dict'


import math as _math
import datetime as _datetime
import collections as _collections
CALLABLES = {
    'sorted': sorted, 'dict': dict, 'len': len, 'free_function': free_function, 'Box': Box, 'Inner': Outer.Inner,
    'str:custom_name': 'custom_name', 'str:pkg.mod.fn': 'pkg.mod.fn',
    # C functions of a module other than builtins, classmethods (built-in and Python), classes of the standard library
    'math.sqrt': _math.sqrt, 'dict.fromkeys': dict.fromkeys, 'datetime.fromtimestamp': _datetime.datetime.fromtimestamp,
    'OrderedDict.fromkeys': _collections.OrderedDict.fromkeys, 'Box.make': Box.make, 'deque': _collections.deque, 'date': _datetime.date,
}
CALLABLE_NAMES = {
    'sorted': 'sorted', 'dict': 'dict', 'len': 'len', 'free_function': 'ppv.vtypes.free_function',
    'Box': 'ppv.vtypes.Box', 'Inner': 'ppv.vtypes.Outer.Inner', 'str:custom_name': 'custom_name',
    'str:pkg.mod.fn': 'pkg.mod.fn',
    'math.sqrt': 'math.sqrt', 'dict.fromkeys': 'dict.fromkeys', 'datetime.fromtimestamp': 'datetime.datetime.fromtimestamp',
    'OrderedDict.fromkeys': 'collections.OrderedDict.fromkeys', 'Box.make': 'ppv.vtypes.Box.make', 'deque': 'collections.deque', 'date': 'datetime.date',
}


@register_pretty(CallSpec)
def _pretty_callspec(value, ctx):
    import collections
    if value.mode == 'call':
        return pretty_call(ctx, value.fn, *value.args, **dict(value.kwargs))
    if value.mode == 'alt-list':
        return pretty_call_alt(ctx, value.fn, args=value.args, kwargs=list(value.kwargs))
    if value.mode == 'alt-odict':
        return pretty_call_alt(ctx, value.fn, args=value.args, kwargs=collections.OrderedDict(value.kwargs))
    if value.mode == 'alt-iter':
        # a one-shot iterable of pairs (what zip / a generator expression gives)
        return pretty_call_alt(ctx, value.fn, args=value.args, kwargs=iter(list(value.kwargs)))
    if value.mode == 'alt-zip':
        return pretty_call_alt(ctx, value.fn, args=value.args,
                               kwargs=zip([k for k, _ in value.kwargs], [v for _, v in value.kwargs]))
    return pretty_call_alt(ctx, value.fn, args=value.args, kwargs=dict(value.kwargs))
