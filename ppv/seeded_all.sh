#!/bin/sh
# Re-runs every kept seeded change (seeded/<id>/patch.diff) against the check of its property, 4 at a time.
# Each runs in its own scratch worktree of /repo (PPV_REPO); /repo is not modified.  Prints one line per change.
cd /verif
ls seeded | xargs -P ${PAR:-4} -I{} sh -c 'IDS=$(python3 -c "
import json,sys
m=json.load(open(\"seeded/{}/meta.json\"))
d=m.get(\"detected_by\")
if isinstance(d, list): print(\" \".join(x[\"check\"] for x in d))
elif isinstance(d, dict) and d.get(\"check\"): print(d[\"check\"])
else: print(m[\"property\"])
"); ./ppv/seedtest.sh seeded/{}/patch.diff $IDS | sed "s/^/{} /"' | sort
