#!/bin/sh
# Re-runs every kept seeded change (seeded/<id>/patch.diff) against the check of its property, 4 at a time.
# Each runs in its own scratch worktree of /repo (PPV_REPO); /repo is not modified.  Prints one line per change.
cd /verif
ls seeded | xargs -P ${PAR:-4} -I{} sh -c 'ID=$(echo {} | sed -E "s/^(r2-)?(C[0-9]+)-.*/\2/"); ./ppv/seedtest.sh seeded/{}/patch.diff $ID | sed "s/^/{} /"' | sort
