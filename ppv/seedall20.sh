#!/bin/sh
# usage: ppv/seedall20.sh <patch.diff>   - runs ALL twenty quick checks against a scratch worktree with the patch applied
PATCH=$(readlink -f "$1")
WT=$(mktemp -d /tmp/ppv-all20.XXXXXX); rmdir "$WT"
git -C /repo worktree add --detach "$WT" HEAD >/dev/null 2>&1 || exit 2
if ! git -C "$WT" apply "$PATCH"; then echo "patch does not apply"; git -C /repo worktree remove --force "$WT"; exit 2; fi
cd /verif
for i in 01 02 03 04 05 06 07 08 09 10 11 12 13 14 15 16 17 18 19 20; do echo C$i; done | xargs -P ${PAR:-3} -I{} sh -c "OUT=\$(PPV_REPO=$WT PPV_EVIDENCE_DIR=$WT/.evidence PPV_FOUND_DIR=$WT/.found PPV_PROCS=6 timeout 900 /venv/bin/python -m ppv.run {} --tier quick 2>&1); RC=\$?; echo \"{} rc=\$RC \$(echo \"\$OUT\" | grep -E '^---' | head -1 | cut -c1-150)\"" | sort | grep -v "rc=0"
git -C /repo worktree remove --force "$WT"
