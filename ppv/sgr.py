"""Independent SGR (ANSI "select graphic rendition") decoder and a trusted encoder built on colorful."""
import re

ESC = re.compile(r'\x1b\[([0-9;]*)m')
RESET = (None, None, False, False, False)   # fg, bg, bold, italic, underline


class BadEscape(Exception):
    pass


def apply_params(state, params):
    fg, bg, bold, italic, under = state
    ps = [int(p) if p else 0 for p in params.split(';')] if params else [0]
    i = 0
    while i < len(ps):
        p = ps[i]
        if p == 0:
            fg, bg, bold, italic, under = RESET
        elif p == 1:
            bold = True
        elif p == 3:
            italic = True
        elif p == 4:
            under = True
        elif p == 22:
            bold = False
        elif p == 23:
            italic = False
        elif p == 24:
            under = False
        elif 30 <= p <= 37 or 90 <= p <= 97:
            fg = ('idx', p)
        elif p == 39:
            fg = None
        elif 40 <= p <= 47 or 100 <= p <= 107:
            bg = ('idx', p)
        elif p == 49:
            bg = None
        elif p in (38, 48):
            if i + 1 >= len(ps):
                raise BadEscape(params)
            if ps[i + 1] == 5 and i + 2 < len(ps):
                val = ('256', ps[i + 2])
                i += 2
            elif ps[i + 1] == 2 and i + 4 < len(ps):
                val = ('rgb', ps[i + 2], ps[i + 3], ps[i + 4])
                i += 4
            else:
                raise BadEscape(params)
            if p == 38:
                fg = val
            else:
                bg = val
        else:
            raise BadEscape(params)
        i += 1
    return (fg, bg, bold, italic, under)


def decode(text):
    """-> (plain text, [state per character], final state)"""
    state = RESET
    chars = []
    states = []
    pos = 0
    for m in ESC.finditer(text):
        for ch in text[pos:m.start()]:
            chars.append(ch)
            states.append(state)
        state = apply_params(state, m.group(1))
        pos = m.end()
    for ch in text[pos:]:
        chars.append(ch)
        states.append(state)
    plain = ''.join(chars)
    if '\x1b' in plain:
        raise BadEscape('stray escape')
    return plain, states, state


_ENCODERS = {}


def expected_state(attrs, mode):
    """SGR state a terminal is in after the style `attrs` (pygments style_for_token dict) was selected
    from the reset state; colorful (own instance, own palette names) is the trusted encoder."""
    import colorful
    key = mode
    if key not in _ENCODERS:
        import colorful.terminal as term
        cm = {'true': term.TRUE_COLORS, '256': term.ANSI_256_COLORS, '8': term.ANSI_8_COLORS}[mode]
        _ENCODERS[key] = (colorful.Colorful(colormode=cm), {})
    cf, cache = _ENCODERS[key]
    ck = (attrs['color'], attrs['bgcolor'], bool(attrs['bold']), bool(attrs['italic']), bool(attrs['underline']))
    if ck in cache:
        return cache[ck]
    s = ''
    if attrs['color']:
        cf.update_palette({'ppvFg': '#' + attrs['color']})
        s += str(getattr(cf, 'ppvFg'))
    if attrs['bgcolor']:
        cf.update_palette({'ppvBg': '#' + attrs['bgcolor']})
        s += str(getattr(cf, 'on_ppvBg'))
    if attrs['bold']:
        s += str(cf.bold)
    if attrs['italic']:
        s += str(cf.italic)
    if attrs['underline']:
        s += str(cf.underlined)
    _, _, st = decode(s)
    cache[ck] = st
    return st
