"""Regenerates /verif/MANIFEST.json from the check modules that exist.

    /venv/bin/python -m ppv.manifest
"""
import json
import os

from . import core

PY = '/venv/bin/python'

META = {
    'C01': dict(cat='exploration', technique='property-based testing: eval round-trip with type-strict canonical equality (bounded-exhaustive small trees + Hypothesis)',
                text='Every generated value/config is printed, evaluated by CPython and compared type-strictly (incl. -0.0, nan, bool/int, dict order). All trees <= 3 nodes (quick) / 4 nodes (thorough) over an adversarial leaf alphabet are enumerated; larger ones are random. Held on everything explored; no proof of absence.',
                note='Trusts CPython eval as evaluator; ascending order is demanded only for keys that are pairwise orderable.', ref='3/C01'),
    'C02': dict(cat='exploration', technique='property-based testing: tokenize/literal_eval round-trip of every literal piece (bounded-exhaustive alphabet words x placements x all widths + Hypothesis long strings), step budget for termination',
                text='Every str/bytes over the 8-symbol adversarial alphabet up to length 3/4, in 8 placements, at every width from 1 up, plus embedded and long random strings: the STRING tokens of the output concatenate to the original, none empty, b prefix on every piece, output evaluates to the placement value; termination judged by a package-line budget.',
                note='Trusts CPython tokenize/ast.literal_eval; the step budget is applied to literals longer than the 10-column floor at small widths and to a hash-selected sample elsewhere.', ref='3/C02'),
    'C04': dict(cat='exploration', technique='property-based testing against a reference denotational semantics: memoised back-tracking membership matcher on the SDoc stream (bounded-exhaustive terms + Hypothesis)',
                text='All document terms up to 4 (quick) / 5 (thorough) nodes x 42 (width, ribbon fraction, strategy) configurations and random larger terms: the emitted stream must be a layout the term denotes under some flat/broken assignment; annotations nested; renderer only trims trailing spaces.',
                note='The reference semantics (ppv/refsem.py) is the trusted meaning of a document; known finding KF1 (hardline reached inside a flat group) is tolerated under its exact structural clause only.', ref='3/C04'),
    'C05': dict(cat='exploration', technique='property-based testing: group decisions recovered by replaying the term against the stream, invariant over recovered decisions (existential over ambiguous assignments)',
                text='All classic-algebra terms up to 5/6 nodes x 48 configurations and random larger ones: every observable flat group leaves its output line within min(width, indent+ribbon).',
                note='Only groups with their own line/softline are observable; groups whose flat reading reaches a hardline (KF1) are not judged.', ref='3/C05'),
    'C06': dict(cat='exploration', technique='property-based testing: independent reference look-ahead justifies every broken group (documents); metamorphic one-line test over widths >= L (values)',
                text='Same document space as C05: every observable broken group must be justified by a reference look-ahead written from the statement. Values (built-ins, subclasses, call types, stdlib instances) whose unbounded rendering is one line of L columns print as that line at widths L, L+1, L+2, L+7, 2L+3.',
                note='Reference look-ahead reads the forced-break clause broadly (never stricter than the statement).', ref='3/C06'),
    'C07': dict(cat='exploration', technique='property-based testing: per-type instance strategies, eval round-trip with observable-state equality, totality via recorded warnings',
                text='Instances of every stdlib type with a bundled printer (boundary values: zero/negative/maximal timedeltas, fold, fixed/named/pytz zones, empty and bounded deques ...) in 7 nesting contexts x layout configurations: no printer falls back to repr, and the output evaluates to an equal object of the same type.',
                note='Equality = Python == plus observable state where == ignores it (fold, maxlen, default_factory, order, partial parts); tzinfo compared through a probe datetime.', ref='3/C07'),
    'C08': dict(cat='exploration', technique='property-based testing: eval round-trip + AST shape of the constructor call (bounded-exhaustive class family x boundary values x placements x all widths + Hypothesis)',
                text='29 subclasses (plain/__repr__/__str__ overriding, IntEnum, (str, Enum)) of the nine built-in bases x boundary values x 7 placements x every width from 1 to L+4, plus random values: evaluation gives the same subclass and base value and the AST is Call(qualname, literal).',
                note='Qualified names resolve through the importable module ppv.vtypes.', ref='3/C08'),
    'C09': dict(cat='exploration', technique='property-based testing: metamorphic AST equality against the comment-stripped value + COMMENT-token word sequence against a pre-order reference (bounded-exhaustive placements + Hypothesis)',
                text='All placements of <= 2 comments/trailing comments on all trees <= 3/4 nodes x adversarial texts (newlines, blank lines, #, quotes, brackets) x widths, plus random trees incl. dict keys, set elements and call arguments: the syntax tree is unchanged, every comment word appears in order inside # comments, nothing raises or warns.',
                note='Trailing comments on nodes whose printer documents no support are expected to be dropped with the documented warning; set displays are compared as multisets.', ref='3/C09'),
    'C10': dict(cat='exploration', technique='property-based testing against a reference truncation model (bounded-exhaustive shapes x N + Hypothesis), tokenize for the notices',
                text='Container shapes over all five kinds nested to depth 2 x every N plus None, long containers around the default limit, and random trees: eval(output) equals the reference truncation, one notice per truncated reached container with the exact count, None == huge limit.',
                note='First N = live iteration order of the object; sort_dict_keys off.', ref='3/C10'),
    'C11': dict(cat='exploration', technique='property-based testing: value-driven parallel walk of the depth-limited and unlimited ASTs (bounded-exhaustive shapes x every depth + Hypothesis)',
                text='All container shapes <= 4/5 nodes with unique leaves x every depth 0..height+2 and None, plus random shapes: placeholders of the element\'s own type appear exactly at nesting level >= depth, everything above is unchanged, depth > height is identical to None.',
                note='Two tolerances where the statement is silent (str dict keys exactly at the cut; empty list/tuple/set beyond the cut).', ref='3/C11'),
    'C13': dict(cat='exploration', technique='property-based testing against a reference DFS over generated object graphs (bounded-exhaustive small graphs + Hypothesis), with reprint histories',
                text='All graphs of list/dict/tuple-holding-list nodes with <= 2 nodes (leaf targets) and all 3-node graphs with out-degree <= 2, random graphs up to 8 nodes; each printed in a five-step history: recursion markers exactly at back-edges (type name and id), shared nodes printed in full, reprints identical, no residue.',
                note='id() of live objects is the identity; RecursionError on these small graphs counts as non-termination.', ref='3/C13'),
    'C14': dict(cat='fault_enumeration', technique='fault enumeration: every printer invocation of every small instrumented tree fails in turn (7 exception classes x before/after children); oracle = output with the faulted object replaced by a repr leaf',
                text='Every ordered tree shape with <= 5 (quick) / 6 (thorough) instrumented nodes x edge-wrapper and class patterns: each node in turn raises each exception class before/after printing its children; sampled fault pairs, random trees and bad return values. Output equals the healthy output with exactly the faulted value replaced by its repr; one warning per failing invocation naming the printer; later prints unaffected; bad return type raises ValueError.',
                note='Harness printers are user-level printers built on build_fncall/pretty_python_value; a fault is attached to an object (each node printer runs once per print in these trees).', ref='3/C14'),
    'C15': dict(cat='exploration', technique='model-based testing of operation histories (bounded-exhaustive histories <= 3/4 ops + Hypothesis op lists) against an executable dispatch model',
                text='Histories of register-by-class / by-name / predicate, print and is_registered (all flag combinations) on a fresh class lattice per history (chain, diamond, unrelated): the printer used and every is_registered answer agree with the model (nearest class in MRO, latest registration wins, then first predicate, then repr).',
                note='is_registered(check_deferred=False) may answer either way for a by-name entry that may already have been promoted (pinned test behaviour).', ref='3/C15'),
    'C16': dict(cat='exploration', technique='differential/invariant testing with an independent SGR decoder over every pygments style x colour mode (fixed corpus exhaustively + Hypothesis values and annotated documents)',
                text='A fixed corpus x every installed pygments style + the two bundled ones x {true colour, 256, 8}, every Token member alone, and random values / annotated document terms: stripped text equals the plain rendering, no style crashes, each character carries the style of its innermost token annotation, the stream ends reset.',
                note='colorful (private instance and palette) is the trusted encoder of a style attribute set; the token table is derived from the Token names.', ref='3/C16'),
    'C17': dict(cat='exploration', technique='property-based testing: AST call shape vs. the generated call recipe, recording callable, and an independent field-selection model over generated dataclass/attrs definitions',
                text='pretty_call/pretty_call_alt with generated callables, positional and keyword lists (all kwargs container kinds, clashing names): callee name, argument order, each argument identical to its stand-alone print, evaluation performs that call. Generated dataclass/attrs classes (defaults, factories, takes_self, repr flags, frozen/slots): exactly the fields selected by the model, evaluation reconstructs an equal instance.',
                note='"differs from the default" is Python != as in the statement; classes live in ppv.dyn.', ref='3/C17'),
    'C18': dict(cat='exploration', technique='model-based testing of configuration histories: every entry point compared with pformat given all effective settings explicitly',
                text='Histories of set_default_config / get_default_config / print through 8 entry points with each setting explicit or defaulted: all agree with the reference text (+ end), and the defaults equal the model after every step. Single-setting changes are enumerated exhaustively for every entry point.',
                note='pformat with every setting explicit is the reference; defaults restored through the API.', ref='3/C18'),
    'C03': dict(cat='exploration', technique='metamorphic property-based testing: AST of the output compared across generated configuration sets (small-tree alphabet and corpus x configuration grid + Hypothesis)',
                text='Values of every printable family (built-ins, comments, stdlib instances, subclass instances, pretty_call objects) under 5-7 configurations each (extremes, default, around the one-line length, random): identical ast.dump everywhere, and every non-blank line indented by a multiple of indent.',
                note='ast.dump equality defines "same syntax tree"; recursion markers are not generated.', ref='3/C03'),
    'C12': dict(cat='exploration', technique='growth-law testing: package LINE events (sys.monitoring) at n, 2n, 4n, 8n for fixed and Hypothesis-drawn input families, with step caps deciding termination',
                text='Families from the statement (nestings of every container/call kind, wide sequences, long strings with/without break opportunities, strings nested until no width is left, comments on every level) and random wrapper recipes: steps(2n)/steps(n) <= 12 at three doublings, every run capped so that exponential behaviour is reported after bounded work.',
                note='Evidence of a growth law at four points, not a proof; known finding D19 (commented dict values) is excluded by construction and its witness family reported.', ref='3/C12'),
    'C19': dict(cat='exploration', technique='metamorphic testing over call histories: permutations/repetitions with allocator perturbation and rebuilt equal values, deep before/after snapshots, plus first-print-in-a-fresh-interpreter comparison',
                text='Corpora drawn from all generators (incl. mixed-type sorted keys, lazily registered stdlib types, struct sequences, commented values, cyclic graphs) printed in random histories: every (object, settings) gives one text, rebuilt equal values give the same text, inputs are unchanged (deep snapshot), and 24 corpus values printed first in a fresh interpreter equal the warm text.',
                note='Rebuilt-value comparison leaves out values holding nan and sorted dicts (identity-based hash / unspecified tie-break); recursion-marker ids are masked.', ref='3/C19'),
    'C20': dict(cat='exploration', technique='schedule enumeration with a deterministic line-level scheduler (sys.settrace): all one-preemption schedules of 13 program pairs, Hypothesis-drawn 2-4 preemption schedules over 2-3 threads; sequential oracle',
                text='Threads first-printing lazily registered classes, subclasses, directly registered and unregistered classes: under every one-preemption schedule at package-line granularity and sampled multi-preemption schedules each call returns its sequential text and none raises.',
                note='Line granularity under the GIL; switches inside a line or inside C code are not explored; controller timeout = harness error.', ref='3/C20'),
}

ALL_IDS = ['C%02d' % i for i in range(1, 21)]


def build():
    checks = []
    na = []
    for cid in ALL_IDS:
        mod = os.path.join(core.VERIF_DIR, 'ppv', 'checks', cid.lower() + '.py')
        if not os.path.exists(mod) or cid not in META:
            na.append({'property_id': cid,
                       'reason': 'check not implemented yet in this revision of /verif (planned: see DESIGN.md section 3/%s); nothing is claimed for it' % cid})
            continue
        m = META[cid]
        checks.append({
            'property_id': cid,
            'quick_cmd': '%s -m ppv.run %s --tier quick' % (PY, cid),
            'thorough_cmd': '%s -m ppv.run %s --tier thorough' % (PY, cid),
            'evidence_file': 'evidence/%s.json' % cid,
            'replay_cmd_template': '%s -m ppv.run %s --replay {path}' % (PY, cid),
            'engine': 'ppv',
            'level_claimed': {'category': m['cat'], 'text': m['text'], 'design_ref': 'DESIGN.md ' + m['ref']},
            'level_note': m['note'],
            'technique': m['technique'],
        })
    man = {
        'version': 1,
        'setup_cmd': '%s -m ppv.setup' % PY,
        'hooks': {
            'guard': core.HOOK_GUARD,
            'enable': 'no hooks were added to the repository; checks import /repo as it is (PYTHONPATH=/repo) and set %s=1 for uniformity' % core.HOOK_GUARD,
            'baseline_off_cmd': 'cd /repo && /venv/bin/python -m pytest -ra -q -p no:cacheprovider --timeout=900 --continue-on-collection-errors',
            'source_commits': [],
            'add_only': True,
        },
        'engines': [{
            'name': 'ppv', 'path': 'ppv/',
            'serves_properties': [c['property_id'] for c in checks],
            'kind_free_text': 'Hypothesis 6.168 strategies over JSON recipes + bounded-exhaustive enumerators sharded over 16 processes; explicit oracles (CPython eval/ast/tokenize, reference layout semantics, dispatch model, SGR decoder, deterministic line scheduler)',
        }],
        'checks': checks,
        'not_applicable': na,
        'notes': 'python -m ppv.run <ID> --tier quick|thorough; VERIF_SEED seeds every random choice; exit 2 = harness error. known_findings.json lists recorded and fixed defects.',
    }
    return man


def main():
    man = build()
    path = os.path.join(core.VERIF_DIR, 'MANIFEST.json')
    with open(path, 'w') as f:
        json.dump(man, f, indent=1)
        f.write('\n')
    print('wrote', path, 'checks:', len(man['checks']), 'not_applicable:', len(man['not_applicable']))


if __name__ == '__main__':
    main()
