"""Regenerates /verif/MANIFEST.json from the check modules that exist.

    /venv/bin/python -m ppv.manifest
"""
import json
import os

from . import core

PY = '/venv/bin/python'

META = {
    'C01': dict(cat='exploration', technique='property-based testing: eval round-trip with type-strict canonical equality (bounded-exhaustive small trees + Hypothesis)',
                text='Every generated value/config is printed, evaluated by CPython and compared type-strictly (incl. -0.0, nan, bool/int, dict order). All trees <= 3 nodes (quick) / 4 nodes (thorough) over an adversarial leaf alphabet are enumerated; larger ones are random. Held on everything explored; no proof of absence.',
                note='Trusts CPython eval as evaluator; ascending order is demanded only for keys that are pairwise orderable.', ref='3/C01'),
}

ALL_IDS = ['C%02d' % i for i in range(1, 21)]


def build():
    checks = []
    na = []
    for cid in ALL_IDS:
        mod = os.path.join(core.VERIF_DIR, 'ppv', 'checks', cid.lower() + '.py')
        if not os.path.exists(mod) or cid not in META:
            na.append({'property_id': cid,
                       'reason': 'check not implemented yet in this revision of /verif (planned: see DESIGN.md section 3/%s); nothing is claimed for it' % cid})
            continue
        m = META[cid]
        checks.append({
            'property_id': cid,
            'quick_cmd': '%s -m ppv.run %s --tier quick' % (PY, cid),
            'thorough_cmd': '%s -m ppv.run %s --tier thorough' % (PY, cid),
            'evidence_file': 'evidence/%s.json' % cid,
            'replay_cmd_template': '%s -m ppv.run %s --replay {path}' % (PY, cid),
            'engine': 'ppv',
            'level_claimed': {'category': m['cat'], 'text': m['text'], 'design_ref': 'DESIGN.md ' + m['ref']},
            'level_note': m['note'],
            'technique': m['technique'],
        })
    man = {
        'version': 1,
        'setup_cmd': '%s -m ppv.setup' % PY,
        'hooks': {
            'guard': core.HOOK_GUARD,
            'enable': 'no hooks were added to the repository; checks import /repo as it is (PYTHONPATH=/repo) and set %s=1 for uniformity' % core.HOOK_GUARD,
            'baseline_off_cmd': 'cd /repo && /venv/bin/python -m pytest -ra -q -p no:cacheprovider --timeout=900 --continue-on-collection-errors',
            'source_commits': [],
            'add_only': True,
        },
        'engines': [{
            'name': 'ppv', 'path': 'ppv/',
            'serves_properties': [c['property_id'] for c in checks],
            'kind_free_text': 'Hypothesis 6.168 strategies over JSON recipes + bounded-exhaustive enumerators sharded over 16 processes; explicit oracles (CPython eval/ast/tokenize, reference layout semantics, dispatch model, SGR decoder, deterministic line scheduler)',
        }],
        'checks': checks,
        'not_applicable': na,
        'notes': 'python -m ppv.run <ID> --tier quick|thorough; VERIF_SEED seeds every random choice; exit 2 = harness error. known_findings.json lists recorded and fixed defects.',
    }
    return man


def main():
    man = build()
    path = os.path.join(core.VERIF_DIR, 'MANIFEST.json')
    with open(path, 'w') as f:
        json.dump(man, f, indent=1)
        f.write('\n')
    print('wrote', path, 'checks:', len(man['checks']), 'not_applicable:', len(man['not_applicable']))


if __name__ == '__main__':
    main()
