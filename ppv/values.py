"""Value recipes (JSON-serialisable) and their Hypothesis strategies.

A recipe is a tagged list:
  ["int", n] ["float", "<repr>"] ["bool", b] ["none"] ["ell"]
  ["str", s] ["bytes", "<hex>"]
  ["list", [r..]] ["tuple", [r..]] ["set", [r..]] ["fset", [r..]] ["dict", [[k, v]..]]
  ["cmt", text, r] ["tcmt", text, r]          comment()/trailing_comment() wrappers
  ["sub", base, variant, r]                    instance of a subclass from ppv.vtypes
  ["std", kind, ...]                           standard-library instance (ppv.stdvals)
"""
import math
import warnings

ADV_CHARS = ["'", '"', '\\', ' ', '\n', 'a', 'é', '\x00']
EXTRA_CHARS = ['\x7f', '\xad', '　', '\ud800', '\U0001F600', '\t', '\x85', ' ', 'b', '{', '#', ',', '-', '/']

INT_POOL = [0, 1, -1, 2, 7, -7, 255, 2 ** 64, -10 ** 20, 10 ** 20]
FLOAT_POOL = ['0.0', '-0.0', '1.5', '-2.5', 'inf', '-inf', 'nan', '1e+300', '5e-324', '0.1']


def build(r):
    t = r[0]
    if t == 'int':
        return r[1]
    if t == 'float':
        return float(r[1])
    if t == 'bool':
        return bool(r[1])
    if t == 'none':
        return None
    if t == 'ell':
        return Ellipsis
    if t == 'str':
        return r[1]
    if t == 'bytes':
        return bytes.fromhex(r[1])
    if t == 'list':
        return [build(x) for x in r[1]]
    if t == 'tuple':
        return tuple(build(x) for x in r[1])
    if t == 'set':
        return set(build(x) for x in r[1])
    if t == 'fset':
        return frozenset(build(x) for x in r[1])
    if t == 'dict':
        d = {}
        for k, v in r[1]:
            d[build(k)] = build(v)
        return d
    if t == 'cmt':
        from prettyprinter import comment
        return comment(build(r[2]), r[1])
    if t == 'tcmt':
        from prettyprinter import trailing_comment
        return trailing_comment(build(r[2]), r[1])
    if t == 'sub':
        from . import vtypes
        return vtypes.build_sub(r, build)
    if t == 'std':
        from . import stdvals
        return stdvals.build_std(r, build)
    if t == 'call':
        from . import vtypes
        return vtypes.build_call(r, build)
    if t == 'pred':
        from . import faults
        return faults.PredThing(bool(r[1]), r[2])
    if t == 'opaque':
        from . import faults
        return faults.OpaqueObj(r[1])
    if t == 'reprraises':
        from . import faults
        return faults.ReprRaises(r[1])
    if t == 'flaky':
        from . import faults
        return faults.Flaky(r[1])
    if t == 'dcinst':
        from . import dyn
        return dyn.build_inst(r, build)
    raise ValueError('unknown recipe %r' % (r,))


def strip_comments(r):
    t = r[0]
    if t in ('cmt', 'tcmt'):
        return strip_comments(r[2])
    if t in ('list', 'tuple', 'set', 'fset'):
        return [t, [strip_comments(x) for x in r[1]]]
    if t == 'dict':
        return [t, [[strip_comments(k), strip_comments(v)] for k, v in r[1]]]
    if t == 'sub':
        return [t, r[1], r[2], strip_comments(r[3])]
    if t == 'call':
        from . import vtypes
        return vtypes.map_call(r, strip_comments)
    return r


def size(r):
    t = r[0]
    if t in ('cmt', 'tcmt'):
        return 1 + size(r[2])
    if t in ('list', 'tuple', 'set', 'fset'):
        return 1 + sum(size(x) for x in r[1])
    if t == 'dict':
        return 1 + sum(size(k) + size(v) for k, v in r[1])
    if t == 'sub':
        return 1 + size(r[3])
    return 1


def has_container(r):
    t = r[0]
    if t in ('cmt', 'tcmt'):
        return has_container(r[2])
    return t in ('list', 'tuple', 'set', 'fset', 'dict')


def height(r):
    """nesting height: 0 for leaves."""
    t = r[0]
    if t in ('cmt', 'tcmt'):
        return height(r[2])
    if t in ('list', 'tuple', 'set', 'fset'):
        return 1 + max([height(x) for x in r[1]] or [0])
    if t == 'dict':
        return 1 + max([max(height(k), height(v)) for k, v in r[1]] or [0])
    if t == 'sub':
        return height(r[3])
    return 0


# --------------------------------------------------------------------------
# pformat wrapper that records warnings

class Printed:
    __slots__ = ('text', 'warnings', 'exc')

    def __init__(self, text, warns, exc):
        self.text = text
        self.warnings = warns
        self.exc = exc

    def fallback_warnings(self):
        return [w for w in self.warnings if 'raised an exception' in w]


class NoTermination(Exception):
    """pformat did not finish within the budget of executed lines (see steps.guarded)"""


GUARD_CAP = 3 * 10 ** 6      # package lines; the largest legitimate print of any check is ~ 3 * 10^5
GUARD_CPU = 8.0              # seconds of CPU after which the call is repeated under the step meter


def pp(value, guard=True, **cfg):
    """pformat with recorded warnings.  Unless guard=False (callers that meter themselves) or not in the main thread, a
    runaway call is abandoned after GUARD_CPU seconds of CPU time and re-decided by the step meter: exceeding
    GUARD_CAP lines is returned as exc=NoTermination, which every check reports."""
    if guard:
        import threading
        if threading.current_thread() is threading.main_thread():
            from . import steps
            res, exceeded = steps.guarded(lambda: _pp(value, **cfg), cap=GUARD_CAP, cpu_seconds=GUARD_CPU)
            if exceeded:
                return Printed(None, [], NoTermination('more than %d package lines' % GUARD_CAP))
            return res
    return _pp(value, **cfg)


def _pp(value, **cfg):
    from prettyprinter import pformat
    with warnings.catch_warnings(record=True) as ws:
        warnings.simplefilter('always')
        try:
            text = pformat(value, **cfg)
            exc = None
        except RecursionError:
            raise
        except Exception as e:  # reported by the caller as a violation
            text = None
            exc = e
    return Printed(text, [str(w.message) for w in ws], exc)


def evaluate(text, env=None):
    genv = {}
    if env:
        genv.update(env)
    return eval('(' + text + '\n)', genv)


# --------------------------------------------------------------------------
# strategies

def strategies():
    """Build the strategy set lazily (hypothesis import after bootstrap)."""
    from hypothesis import strategies as st

    adv_text = st.lists(st.sampled_from(ADV_CHARS + EXTRA_CHARS), max_size=6).map(''.join)
    words = st.lists(st.sampled_from(['a', 'bb', 'ccc', "it's", 'say "hi"', 'x\\y', 'été', 'word', 'lorem', 'ipsum-dolor', 'a/b/c',
                                      "rock'n'roll", "'tis", 'x"y"z', "C:\\dir\\'", 'q\\"']),
                     min_size=1, max_size=30).map(' '.join)
    quoty = st.lists(st.sampled_from(["'", "'", '"', '\\', "\\'", '\\"', 'a', ' ', 'word ']), min_size=1, max_size=40).map(''.join)
    unbreakable = st.integers(5, 120).map(lambda n: 'x' * n)
    any_text = st.text(max_size=40)
    text = st.one_of(adv_text, adv_text, words, unbreakable, any_text, st.just(''), quoty)

    def to_bytes_recipe(s):
        return ['bytes', s.encode('utf-8', 'surrogatepass').hex()]

    r_int = st.one_of(st.sampled_from(INT_POOL), st.integers(-10 ** 6, 10 ** 6)).map(lambda n: ['int', n])
    r_float = st.one_of(st.sampled_from(FLOAT_POOL),
                        st.floats(allow_nan=True, allow_infinity=True).map(repr)).map(lambda s: ['float', s])
    r_const = st.sampled_from([['bool', True], ['bool', False], ['none'], ['ell']])
    r_str = text.map(lambda s: ['str', s])
    r_bytes = st.one_of(text.map(to_bytes_recipe), st.binary(max_size=40).map(lambda b: ['bytes', b.hex()]))
    leaf = st.one_of(r_int, r_float, r_const, r_str, r_str, r_bytes)

    def hashable_ext(children):
        return st.one_of(
            st.lists(children, max_size=3).map(lambda xs: ['tuple', xs]),
            st.lists(children, max_size=3).map(lambda xs: ['fset', xs]),
        )
    hashable = st.recursive(leaf, hashable_ext, max_leaves=6)

    def value_ext(children):
        return st.one_of(
            st.lists(children, max_size=5).map(lambda xs: ['list', xs]),
            st.lists(children, max_size=4).map(lambda xs: ['tuple', xs]),
            st.lists(hashable, max_size=4).map(lambda xs: ['set', xs]),
            st.lists(hashable, max_size=3).map(lambda xs: ['fset', xs]),
            st.lists(st.tuples(hashable, children).map(list), max_size=4).map(lambda kv: ['dict', kv]),
        )
    value = st.recursive(leaf, value_ext, max_leaves=25)

    width = st.one_of(st.sampled_from([1, 2, 3, 5, 10, 20, 40, 79, 200]), st.integers(1, 200))
    cfg = st.fixed_dictionaries({
        'width': width,
        'ribbon_width': width,
        'indent': st.one_of(st.sampled_from([1, 2, 4, 8]), st.integers(1, 8)),
        'sort_dict_keys': st.booleans(),
    })
    # options that must not change anything as long as they do not truncate: a finite depth far above any generated
    # nesting, max_seq_len None / far above any generated length (exercise the non-default arithmetic paths)
    neutral = st.fixed_dictionaries({}, optional={'depth': st.sampled_from([60, 200]),
                                                  'max_seq_len': st.sampled_from([None, 10 ** 5])})
    return {
        'neutral': st.one_of(st.just({}), st.just({}), neutral),
        'st': st, 'leaf': leaf, 'hashable': hashable, 'value': value, 'cfg': cfg, 'width': width,
        'text': text, 'adv_text': adv_text, 'words': words, 'r_str': r_str, 'r_bytes': r_bytes,
        'value_ext': value_ext, 'hashable_ext': hashable_ext, 'r_int': r_int, 'r_float': r_float,
        'r_const': r_const,
    }


def is_nan_free(v):
    if isinstance(v, float):
        return not math.isnan(v)
    if isinstance(v, (list, tuple, set, frozenset)):
        return all(is_nan_free(x) for x in v)
    if isinstance(v, dict):
        return all(is_nan_free(k) and is_nan_free(x) for k, x in v.items())
    return True


def dedupe(r):
    """Recipe with the duplicates Python would merge removed (dict: first key position, last value;
    set: first occurrence), so that a walk over the recipe equals a walk over the built value.
    Keys/elements wrapped in comment objects are distinct objects and never merge."""
    t = r[0]
    if t in ('cmt', 'tcmt'):
        return [t, r[1], dedupe(r[2])]
    if t in ('list', 'tuple'):
        return [t, [dedupe(x) for x in r[1]]]
    if t in ('set', 'fset'):
        seen = {}
        out = []
        for x in r[1]:
            x = dedupe(x)
            if x[0] in ('cmt', 'tcmt'):
                out.append(x)
                continue
            k = build(x)
            if k in seen:
                continue
            seen[k] = True
            out.append(x)
        return [t, out]
    if t == 'dict':
        pos = {}
        out = []
        for k, v in r[1]:
            k, v = dedupe(k), dedupe(v)
            if k[0] in ('cmt', 'tcmt'):
                out.append([k, v])
                continue
            bk = build(k)
            if bk in pos:
                out[pos[bk]][1] = v
            else:
                pos[bk] = len(out)
                out.append([k, v])
        return [t, out]
    if t == 'call':
        return ['call', r[1], [dedupe(a) for a in r[2]], [[k, dedupe(v)] for k, v in r[3]]]
    if t == 'sub':
        return ['sub', r[1], r[2], dedupe(r[3])]
    return r
