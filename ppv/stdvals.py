"""Standard-library instances as recipes: ["std", kind, ...] (see build_std), their strategies and the
notion of "reconstructs an equal object" used by C07."""
import collections
import datetime as dt
import enum
import functools
import pathlib
import time as _time
import types
import typing
import uuid

# ---- importable helper types (printed qualified names must evaluate: ppv.stdvals.X) -------------


class Color(enum.Enum):
    RED = 1
    GREEN = 'g'
    BLUE = (1, 2)


class Perm(enum.Flag):
    R = 4
    W = 2
    X = 1
    RW = 6          # a named combination


class Shade(enum.Enum):
    DARK = 1
    DIM = 1         # an alias


class IPerm(enum.IntFlag):
    R = 4
    W = 2


Point = collections.namedtuple('Point', ['x', 'y'])
Empty = collections.namedtuple('Empty', [])
Renamed = collections.namedtuple('Renamed', ['a', 'def', 'a'], rename=True)
Single = collections.namedtuple('Single', ['only'])


class Typed(typing.NamedTuple):
    name: str
    value: object = None
    extra: object = 0


NAMEDTUPLES = {'Point': Point, 'Empty': Empty, 'Renamed': Renamed, 'Single': Single, 'Typed': Typed}
ENUMS = {'Color': Color, 'Perm': Perm, 'Shade': Shade, 'IPerm': IPerm}


def user_function(*args, **kwargs):
    return (args, kwargs)


FUNCTIONS = {'user_function': user_function, 'len': len, 'sorted': sorted, 'int': int, 'dict': dict, 'print': print,
             'math.sqrt': __import__('math').sqrt, 'dict.fromkeys': dict.fromkeys, 'datetime.fromtimestamp': dt.datetime.fromtimestamp,
             'OrderedDict': collections.OrderedDict, 'int.from_bytes': int.from_bytes}
import math as _math
import io as _io
import random as _random
# functions, classes and methods (printers for type / function / builtin function are shipped too).  Reconstructable ones
# evaluate back to the same object; bound methods of instances can only be checked for "the printer does not fail".
CALLABLES_OK = {'len': len, 'sorted': sorted, 'math.sqrt': _math.sqrt, 'math.floor': _math.floor, 'int': int, 'dict': dict,
                'OrderedDict': collections.OrderedDict, 'date': dt.date, 'datetime': dt.datetime, 'partial': functools.partial, 'UUID': uuid.UUID,
                'user_function': None, 'dict.fromkeys': dict.fromkeys, 'int.from_bytes': int.from_bytes, 'datetime.fromtimestamp': dt.datetime.fromtimestamp,
                'date.today': dt.date.today, 'OrderedDict.fromkeys': collections.OrderedDict.fromkeys, 'Color': None, 'Point': None,
                'PurePosixPath': pathlib.PurePosixPath, 'NoneType': type(None), 'ValueError': ValueError, 'bytes.fromhex': bytes.fromhex}
CALLABLES_TOTAL = {'list.append': lambda: [].append, 'str.upper': lambda: 'x'.upper, 'deque.append': lambda: collections.deque().append,
                   'StringIO.write': lambda: _io.StringIO().write, 'random.random': lambda: _random.random, 'dict.get': lambda: {}.get,
                   'lambda': lambda: (lambda x: x), 'bytes.hex': lambda: b'x'.hex, 'Random.seed': lambda: _random.Random().seed,
                   'set.add': lambda: set().add, 'int.bit_length': lambda: (5).bit_length}
FACTORIES = {'int': int, 'list': list, 'dict': dict, 'str': str, 'set': set, None: None}
EXCEPTIONS = {n: getattr(__import__('builtins'), n) for n in
              ['Exception', 'ValueError', 'KeyError', 'TypeError', 'RuntimeError', 'OSError', 'StopIteration',
               'KeyboardInterrupt', 'ZeroDivisionError', 'UnicodeError', 'AssertionError', 'LookupError',
               'BaseException', 'SystemExit', 'GeneratorExit']}
PATHS = {'PurePosixPath': pathlib.PurePosixPath, 'PureWindowsPath': pathlib.PureWindowsPath}
PYTZ_ZONES = ['Europe/Helsinki', 'America/New_York', 'Asia/Kolkata', 'Australia/Lord_Howe', 'UTC', 'Etc/GMT+5',
              'Africa/Monrovia', 'Pacific/Apia', 'Etc/UTC', 'Zulu', 'UCT', 'Etc/Universal', 'GMT', 'Etc/GMT-14', 'Etc/Greenwich']


def build_tz(r):
    if r is None:
        return None
    k = r[0]
    if k == 'utc':
        return dt.timezone.utc
    if k == 'fixed':
        td = dt.timedelta(seconds=r[1], microseconds=r[2])
        return dt.timezone(td) if r[3] is None else dt.timezone(td, r[3])
    import pytz
    if k == 'pytz_utc':
        return pytz.utc
    if k == 'pytz':
        return pytz.timezone(r[1])
    if k == 'pytz_fixed':
        return pytz.FixedOffset(r[1])
    if k == 'pytz_localized':
        y, m, d, H, M = r[2]
        return pytz.timezone(r[1]).localize(dt.datetime(y, m, d, H, M)).tzinfo
    raise ValueError(r)


def build_std(r, build):
    k = r[1]
    if k == 'datetime':
        y, m, d, H, M, S, us = r[2]
        return dt.datetime(y, m, d, H, M, S, us, tzinfo=build_tz(r[3]), fold=r[4])
    if k == 'date':
        return dt.date(*r[2])
    if k == 'time':
        H, M, S, us = r[2]
        return dt.time(H, M, S, us, tzinfo=build_tz(r[3]), fold=r[4])
    if k == 'timedelta':
        return dt.timedelta(days=r[2][0], seconds=r[2][1], microseconds=r[2][2])
    if k == 'tz':
        return build_tz(r[2])
    if k == 'odict':
        return collections.OrderedDict((build(a), build(b)) for a, b in r[2])
    if k == 'ddict':
        d = collections.defaultdict(FACTORIES[r[2]])
        for a, b in r[3]:
            d[build(a)] = build(b)
        return d
    if k == 'deque':
        return collections.deque([build(x) for x in r[2]], maxlen=r[3])
    if k == 'counter':
        c = collections.Counter()
        for a, n in r[2]:
            c[build(a)] = n
        return c
    if k == 'chainmap':
        return collections.ChainMap(*[dict((build(a), build(b)) for a, b in m) for m in r[2]])
    if k == 'mproxy':
        return types.MappingProxyType(dict((build(a), build(b)) for a, b in r[2]))
    if k == 'uuid':
        return uuid.UUID(hex=r[2])
    if k == 'enum':
        if isinstance(r[3], int):
            return ENUMS[r[2]](r[3])        # a Flag value by number: a member, a combination of members or none
        return ENUMS[r[2]][r[3]]
    if k == 'ns':
        return types.SimpleNamespace(**{n: build(v) for n, v in r[2]})
    if k == 'ntuple':
        return NAMEDTUPLES[r[2]](*[build(x) for x in r[3]])
    if k == 'struct_time':
        return _time.struct_time(tuple(r[2]))
    if k == 'struct_time_x':     # fields are arbitrary value recipes
        return _time.struct_time(tuple(build(x) for x in r[2]))
    if k == 'structseq':         # other struct sequences (some have unnamed or extra fields): class name, field recipes
        import os
        cls = {'stat_result': os.stat_result, 'terminal_size': os.terminal_size, 'times_result': os.times_result, 'struct_time': _time.struct_time}[r[2]]
        return cls(tuple(build(x) for x in r[3]))
    if k == 'partial':
        cls = functools.partial if r[2] == 'partial' else functools.partialmethod
        return cls(FUNCTIONS[r[3]], *[build(x) for x in r[4]], **{n: build(v) for n, v in r[5]})
    if k == 'exc':
        return EXCEPTIONS[r[2]](*[build(x) for x in r[3]])
    if k == 'path':
        return PATHS[r[2]](r[3])
    if k == 'callable':
        if r[2] in CALLABLES_TOTAL:
            return CALLABLES_TOTAL[r[2]]()
        return {'user_function': user_function, 'Color': Color, 'Point': Point}.get(r[2]) or CALLABLES_OK[r[2]]
    raise ValueError(r)


def env():
    import ppv
    import pytz
    import datetime
    import collections
    import functools
    import pathlib
    import time
    import math
    import os
    return {'os': os, 'ppv': ppv, 'pytz': pytz, 'datetime': datetime, 'collections': collections, 'types': types,
            'uuid': uuid, 'functools': functools, 'pathlib': pathlib, 'time': time, 'math': math,
            'mappingproxy': types.MappingProxyType}


# ---- equality of reconstructed objects ------------------------------------------------------------

def std_equal(a, b, same):
    """a: original, b: reconstructed; `same` is the type-strict comparison for built-in payloads.
    -> None if equal else a reason string"""
    if type(a) is not type(b):
        # pytz localized tzinfo reconstructs as its own class family; everything else must match exactly
        if not (isinstance(a, dt.tzinfo) and isinstance(b, dt.tzinfo)):
            return 'type %s vs %s' % (type(a).__name__, type(b).__name__)
    if isinstance(a, dt.datetime):
        if a.tzinfo is None or b.tzinfo is None:
            ok = (a.tzinfo is None) == (b.tzinfo is None) and a == b
        else:
            ok = a == b and a.utcoffset() == b.utcoffset()
        if not ok or a.replace(tzinfo=None) != b.replace(tzinfo=None) or a.fold != b.fold:
            return 'datetime differs: %r vs %r' % (a, b)
        return None
    if isinstance(a, dt.time):
        if (a.tzinfo is None) != (b.tzinfo is None):
            return 'time tz presence differs'
        if a.replace(tzinfo=None) != b.replace(tzinfo=None) or a.fold != b.fold:
            return 'time differs: %r vs %r' % (a, b)
        if a.tzinfo is not None and a.utcoffset() != b.utcoffset():
            return 'time offset differs: %r vs %r' % (a, b)
        return None
    if isinstance(a, dt.tzinfo):
        if a == b:
            return None
        # tzinfo classes mostly compare by identity: compare what they do to a datetime carrying them
        # (named zones must keep their name: pytz.timezone('Etc/UTC') is not pytz.utc)
        if getattr(a, 'zone', None) is not None and getattr(b, 'zone', None) is not None and a.zone != b.zone:
            return 'tzinfo differs: %r (zone %r) vs %r (zone %r)' % (a, getattr(a, 'zone', None), b, getattr(b, 'zone', None))
        probe = dt.datetime(2021, 6, 15, 12, 0)
        try:
            pa, pb = probe.replace(tzinfo=a), probe.replace(tzinfo=b)
            if pa.utcoffset() == pb.utcoffset() and pa.dst() == pb.dst() and pa.tzname() == pb.tzname():
                return None
        except Exception as e:
            return 'tzinfo probe failed: %r' % (e,)
        return 'tzinfo differs: %r vs %r' % (a, b)
    if isinstance(a, (dt.date, dt.timedelta, uuid.UUID, pathlib.PurePath, enum.Enum)):
        return None if a == b else '%r != %r' % (a, b)
    if isinstance(a, collections.OrderedDict):
        return None if same(list(a.items()), list(b.items())) else 'OrderedDict items differ: %r vs %r' % (a, b)
    if isinstance(a, collections.defaultdict):
        if a.default_factory is not b.default_factory:
            return 'default_factory differs'
        return None if same(dict(a), dict(b), 'sort') else 'defaultdict items differ'
    if isinstance(a, collections.deque):
        if a.maxlen != b.maxlen:
            return 'maxlen differs'
        return None if same(list(a), list(b)) else 'deque items differ'
    if isinstance(a, collections.Counter):
        return None if same(dict(a), dict(b), 'sort') else 'Counter differs: %r vs %r' % (a, b)
    if isinstance(a, collections.ChainMap):
        return None if same([dict(m) for m in a.maps] or [{}], [dict(m) for m in b.maps] or [{}]) or (
            not any(a.maps) and not any(b.maps)) else 'ChainMap maps differ: %r vs %r' % (a, b)
    if isinstance(a, types.MappingProxyType):
        return None if same(dict(a), dict(b)) else 'mappingproxy differs'
    if isinstance(a, types.SimpleNamespace):
        return None if same(a.__dict__, b.__dict__, 'sort') else 'namespace differs: %r vs %r' % (a, b)
    if isinstance(a, _time.struct_time):
        return None if tuple(a) == tuple(b) else 'struct_time differs'
    if isinstance(a, tuple):   # namedtuples
        return None if same(tuple(a), tuple(b)) else 'namedtuple differs: %r vs %r' % (a, b)
    if isinstance(a, (functools.partial, functools.partialmethod)):
        if a.func is not b.func and not (a.func == b.func):      # (classmethods are new bound-method objects on every access)
            return 'partial func differs'
        if not same(tuple(a.args), tuple(b.args)) or not same(dict(a.keywords), dict(b.keywords)):
            return 'partial args differ: %r vs %r' % (a, b)
        return None
    if isinstance(a, BaseException):
        return None if same(tuple(a.args), tuple(b.args)) else 'exception args differ: %r vs %r' % (a.args, b.args)
    if callable(a):
        return None if (a is b or a == b) else 'callable differs: %r vs %r' % (a, b)
    return 'unhandled type %s' % type(a).__name__


# ---- strategies -------------------------------------------------------------------------------------

def tz_strategy(st):
    secs = st.one_of(st.sampled_from([3600, -3600, 19800, -18000, 0, 86399, -86399, 30, 1, -1, 3601]),
                     st.integers(-86399, 86399))
    us = st.sampled_from([0, 0, 0, 1, 999999, 500000])
    name = st.one_of(st.none(), st.sampled_from(['X', 'EET', '', "it's", 'Zone "A"', 'é']))
    fixed = st.tuples(secs, us, name).map(lambda p: ['fixed', p[0], p[1] if abs(p[0]) < 86399 else 0, p[2]])
    return st.one_of(
        st.none(), st.none(),
        st.just(['utc']), fixed, fixed,
        st.just(['pytz_utc']),
        st.sampled_from(PYTZ_ZONES).map(lambda z: ['pytz', z]),
        st.sampled_from([0, 60, -300, 330, 1, -1439, 1439]).map(lambda m: ['pytz_fixed', m]),
        st.tuples(st.sampled_from(PYTZ_ZONES[:4]), st.integers(1950, 2030), st.integers(1, 12), st.integers(1, 28),
                  st.integers(3, 22)).map(lambda p: ['pytz_localized', p[0], [p[1], p[2], p[3], p[4], 30]]),
    )


def std_strategy(S, payload=None, hashable=None):
    st = S['st']
    payload = payload if payload is not None else st.recursive(S['leaf'], S['value_ext'], max_leaves=5)
    hashable = hashable if hashable is not None else S['hashable']
    tz = tz_strategy(st)
    zeroish = lambda hi: st.one_of(st.just(0), st.just(0), st.integers(0, hi))
    tfields = st.tuples(zeroish(23), zeroish(59), zeroish(59), st.one_of(st.just(0), st.just(0), st.integers(0, 999999), st.sampled_from([1, 1000, 999999])))
    ymd = st.tuples(st.one_of(st.integers(1, 9999), st.integers(1990, 2030)), st.integers(1, 12), st.integers(1, 28))
    fold = st.sampled_from([0, 0, 0, 1])
    r_datetime = st.tuples(ymd, tfields, tz, fold).map(lambda p: ['std', 'datetime', list(p[0]) + list(p[1]), p[2], p[3]])
    r_date = ymd.map(lambda p: ['std', 'date', list(p)])
    r_time = st.tuples(tfields, tz, fold).map(lambda p: ['std', 'time', list(p[0]), p[1], p[2]])
    r_td = st.one_of(
        st.sampled_from([[0, 0, 0], [0, 0, 1], [-1, 86399, 999999], [-999999999, 0, 0], [999999999, 86399, 999999],
                         [365, 0, 0], [730, 0, 0], [366, 0, 0], [729, 3600, 0], [0, 3600, 0], [0, 59, 1000],
                         [1, 0, 0], [-365, 0, 0], [-1, 0, 0], [0, 1, 0], [3650, 7322, 1001]]),
        st.tuples(st.integers(-1000, 5000), st.integers(0, 86399), st.integers(0, 999999)).map(list),
        st.tuples(st.integers(-2, 2), st.sampled_from([0, 1, 60, 3600, 3661]), st.sampled_from([0, 1, 1000, 1001])).map(list),
    ).map(lambda p: ['std', 'timedelta', p])
    r_tz = tz.filter(lambda r: r is not None).map(lambda r: ['std', 'tz', r])
    pairs = st.lists(st.tuples(hashable, payload).map(list), max_size=4)
    r_odict = pairs.map(lambda kv: ['std', 'odict', kv])
    r_ddict = st.tuples(st.sampled_from(['int', 'list', 'dict', 'str', 'set', None]), pairs).map(lambda p: ['std', 'ddict', p[0], p[1]])
    r_deque = st.tuples(st.lists(payload, max_size=5), st.one_of(st.none(), st.integers(0, 6))).map(
        lambda p: ['std', 'deque', p[0], p[1]])
    r_counter = st.lists(st.tuples(hashable, st.integers(-3, 50)).map(list), max_size=5).map(lambda kv: ['std', 'counter', kv])
    r_chain = st.lists(pairs, max_size=3).map(lambda ms: ['std', 'chainmap', ms])
    r_mproxy = pairs.map(lambda kv: ['std', 'mproxy', kv])
    r_uuid = st.one_of(st.sampled_from(['0' * 32, 'f' * 32]), st.uuids().map(lambda u: u.hex)).map(lambda h: ['std', 'uuid', h])
    r_enum = st.sampled_from([['Color', 'RED'], ['Color', 'GREEN'], ['Color', 'BLUE'], ['Perm', 'R'], ['Perm', 'W'], ['Perm', 'X'],
                              ['Perm', 'RW'], ['Shade', 'DIM'], ['Shade', 'DARK'], ['IPerm', 'R']] +
                             [['Perm', n] for n in range(8)] + [['IPerm', n] for n in (0, 2, 6, 8, 14)]).map(
        lambda p: ['std', 'enum', p[0], p[1]])
    ident = st.sampled_from(['a', 'b', 'zz', '_x', 'é', 'name', 'value', 'ctx', 'fn', 'self'])
    from . import gens as _gens
    _idents = ['a', 'b', 'zz', '_x', 'é', 'name', 'value', 'ctx', 'fn', 'self']
    r_ns = _gens.named_values(st, _idents, payload, 4).map(lambda kv: ['std', 'ns', kv])
    r_nt = st.one_of(
        st.tuples(payload, payload).map(lambda p: ['std', 'ntuple', 'Point', list(p)]),
        st.just(['std', 'ntuple', 'Empty', []]),
        st.tuples(payload, payload, payload).map(lambda p: ['std', 'ntuple', 'Renamed', list(p)]),
        payload.map(lambda p: ['std', 'ntuple', 'Single', [p]]),
        st.lists(payload, min_size=1, max_size=3).map(lambda p: ['std', 'ntuple', 'Typed', p]),
    )
    r_st = st.tuples(st.integers(1970, 2100), st.integers(1, 12), st.integers(1, 28), st.integers(0, 23), st.integers(0, 59),
                     st.integers(0, 61), st.integers(0, 6), st.integers(1, 366), st.integers(-1, 1)).map(lambda p: ['std', 'struct_time', list(p)])
    r_partial = st.tuples(st.sampled_from(['partial', 'partialmethod']), st.sampled_from(sorted(k for k in FUNCTIONS)),
                          st.lists(payload, max_size=3),
                          _gens.named_values(st, _idents, payload, 3)).map(
        lambda p: ['std', 'partial', p[0], p[1], p[2], p[3]])
    r_exc = st.tuples(st.sampled_from(sorted(EXCEPTIONS)), st.lists(payload, max_size=3)).map(lambda p: ['std', 'exc', p[0], p[1]])
    seg = st.sampled_from(['a', 'usr', 'local', '..', '.', 'with space', 'é', 'x' * 30, 'file.txt', "it's"])
    r_path = st.tuples(st.sampled_from(['PurePosixPath', 'PureWindowsPath']), st.booleans(), st.lists(seg, max_size=12)).map(
        lambda p: ['std', 'path', p[0], ('/' if p[1] else '') + '/'.join(p[2])])
    parts = {
        'datetime': r_datetime, 'date': r_date, 'time': r_time, 'timedelta': r_td, 'tz': r_tz, 'odict': r_odict,
        'ddict': r_ddict, 'deque': r_deque, 'counter': r_counter, 'chainmap': r_chain, 'mproxy': r_mproxy,
        'uuid': r_uuid, 'enum': r_enum, 'ns': r_ns, 'ntuple': r_nt, 'struct_time': r_st, 'partial': r_partial,
        'exc': r_exc, 'path': r_path,
    }
    return parts


def is_hashable_std(r):
    return r[1] in ('datetime', 'date', 'time', 'timedelta', 'tz', 'uuid', 'enum', 'path', 'struct_time')


def deep_same(a, b, dict_mode='keep'):
    """type-strict equality that recurses through built-in containers and uses std_equal for everything else"""
    from . import eqv
    ta = type(a)
    if ta is not type(b):
        if isinstance(a, dt.tzinfo) and isinstance(b, dt.tzinfo):
            return std_equal(a, b, (lambda x, y, mode=None: deep_same(x, y, 'sort' if dict_mode == 'sort' else (mode or 'keep')))) is None
        return False
    if ta in (list, tuple):
        return len(a) == len(b) and all(deep_same(x, y, dict_mode) for x, y in zip(a, b))
    if ta is dict:
        if len(a) != len(b):
            return False
        if dict_mode == 'keep':
            return all(deep_same(k1, k2, dict_mode) and deep_same(v1, v2, dict_mode)
                       for (k1, v1), (k2, v2) in zip(a.items(), b.items()))
        rest = list(b.items())
        for k1, v1 in a.items():
            for i, (k2, v2) in enumerate(rest):
                if deep_same(k1, k2, dict_mode) and deep_same(v1, v2, dict_mode):
                    del rest[i]
                    break
            else:
                return False
        return True
    if ta in (set, frozenset):
        if len(a) != len(b):
            return False
        rest = list(b)
        for x in a:
            for i, y in enumerate(rest):
                if deep_same(x, y, dict_mode):
                    del rest[i]
                    break
            else:
                return False
        return True
    if ta in (int, float, bool, str, bytes) or a is None or a is Ellipsis:
        return eqv.same(a, b)
    return std_equal(a, b, (lambda x, y, mode=None: deep_same(x, y, 'sort' if dict_mode == 'sort' else (mode or 'keep')))) is None
