"""Common machinery: bootstrap, verdicts, statistics, drivers, evidence.

Every check module in ppv.checks exposes

    ID, LEVEL, RULE, ASSUMPTIONS
    oracle(case) -> Result                 pure function of a JSON-serialisable case
    strategy(tier) -> hypothesis strategy  (optional) random cases
    enumerate_cases(tier) -> iterator      (optional) bounded-exhaustive cases
    BUDGET = {'quick': {...}, 'thorough': {...}}
    fixed_cases() -> iterator              (optional) hand-written regression cases

The runner (ppv.run) replays saved cases, enumerates, then drives Hypothesis
in parallel worker processes.  Only the parent writes files.
"""
import hashlib
import importlib
import json
import os
import sys
import time
import traceback

VERIF_DIR = os.path.dirname(os.path.dirname(os.path.abspath(__file__)))
REPO_DIR = os.environ.get('PPV_REPO', '/repo')
DEPS_DIR = os.path.join(VERIF_DIR, '.deps')
WHEELS = '/opt/veriftools/wheels'
HOOK_GUARD = 'PRETTYPRINTER_VERIF'


# --------------------------------------------------------------------------
# bootstrap

def reexec_if_needed():
    """Fresh, deterministic interpreter state: PYTHONHASHSEED=0."""
    if os.environ.get('PYTHONHASHSEED') != '0':
        env = dict(os.environ)
        env['PYTHONHASHSEED'] = '0'
        env[HOOK_GUARD] = '1'
        os.execve(sys.executable, [sys.executable, '-m', 'ppv.run'] + sys.argv[1:], env)


def ensure_paths():
    if REPO_DIR not in sys.path[:1]:
        sys.path.insert(0, REPO_DIR)
    if os.path.isdir(DEPS_DIR) and DEPS_DIR not in sys.path:
        sys.path.append(DEPS_DIR)


def ensure_deps(verbose=False):
    """hypothesis must be importable; install offline into .deps if not."""
    ensure_paths()
    try:
        import hypothesis  # noqa
        return True
    except ImportError:
        pass
    import subprocess
    os.makedirs(DEPS_DIR, exist_ok=True)
    cmd = [sys.executable, '-m', 'pip', 'install', '--no-index', '--find-links', WHEELS,
           '--target', DEPS_DIR, 'hypothesis']
    r = subprocess.run(cmd, capture_output=True, text=True)
    if verbose or r.returncode:
        sys.stderr.write(r.stdout + r.stderr)
    if DEPS_DIR not in sys.path:
        sys.path.append(DEPS_DIR)
    importlib.invalidate_caches()
    import hypothesis  # noqa
    return True


def import_package():
    ensure_paths()
    import prettyprinter
    f = os.path.realpath(prettyprinter.__file__)
    if not f.startswith(os.path.realpath(REPO_DIR) + os.sep):
        raise HarnessError('prettyprinter imported from %s, not from %s' % (f, REPO_DIR))
    return prettyprinter


class HarnessError(Exception):
    pass


# --------------------------------------------------------------------------
# verdicts

OK, SKIP, KNOWN, VIOL = 'ok', 'skip', 'known', 'viol'


class Result:
    __slots__ = ('status', 'code', 'detail', 'nontrivial', 'labels', 'finding')

    def __init__(self, status=OK, code=None, detail=None, nontrivial=False, labels=(), finding=None):
        self.status = status
        self.code = code
        self.detail = detail
        self.nontrivial = nontrivial
        self.labels = tuple(labels)
        self.finding = finding

    def __repr__(self):
        return 'Result(%s, %s, %r)' % (self.status, self.code, self.detail)


def ok(nontrivial=False, labels=()):
    return Result(OK, nontrivial=nontrivial, labels=labels)


def skip(reason, labels=()):
    return Result(SKIP, code=reason, labels=labels)


def viol(code, detail=None, labels=()):
    if detail is not None and not isinstance(detail, str):
        detail = repr(detail)
    if detail and len(detail) > 1500:
        detail = detail[:1500] + '…'
    return Result(VIOL, code=code, detail=detail, labels=labels)


def known(finding, detail=None, nontrivial=False, labels=()):
    return Result(KNOWN, code=finding, detail=detail, finding=finding, nontrivial=nontrivial, labels=labels)


def canonical(case):
    return json.dumps(case, sort_keys=True, ensure_ascii=True, separators=(',', ':'))


def digest(case_or_text):
    if not isinstance(case_or_text, str):
        case_or_text = canonical(case_or_text)
    return hashlib.blake2b(case_or_text.encode('ascii'), digest_size=8).digest()


# --------------------------------------------------------------------------
# statistics gathered per worker and merged by the parent

MAX_SAMPLE_CHARS = 1200
N_SAMPLES = 8


class Stats:
    def __init__(self):
        self.evaluations = 0
        self.skipped = 0
        self.known_hits = {}
        self.labels = {}
        self.nontrivial = set()
        self.samples = {}      # digest -> canonical text (smallest digests kept)
        self.violations = []   # [(code, detail, case)]
        self.phase = {}

    def record(self, case, res, phase='random', keep_violation=True):
        self.evaluations += 1
        self.phase[phase] = self.phase.get(phase, 0) + 1
        for lb in res.labels:
            self.labels[lb] = self.labels.get(lb, 0) + 1
        if res.status == SKIP:
            self.skipped += 1
            self.labels['skip:' + str(res.code)] = self.labels.get('skip:' + str(res.code), 0) + 1
            return
        if res.status == KNOWN:
            self.known_hits[res.finding] = self.known_hits.get(res.finding, 0) + 1
        if res.status == VIOL:
            if keep_violation and len(self.violations) < 20:
                self.violations.append((res.code, res.detail, case))
            return
        if res.nontrivial:
            text = canonical(case)
            d = digest(text)
            if d not in self.nontrivial:
                self.nontrivial.add(d)
                if len(text) <= MAX_SAMPLE_CHARS:
                    self.samples[d] = text
                    if len(self.samples) > N_SAMPLES:
                        del self.samples[max(self.samples)]

    def merge(self, other):
        self.evaluations += other.evaluations
        self.skipped += other.skipped
        for k, v in other.known_hits.items():
            self.known_hits[k] = self.known_hits.get(k, 0) + v
        for k, v in other.labels.items():
            self.labels[k] = self.labels.get(k, 0) + v
        for k, v in other.phase.items():
            self.phase[k] = self.phase.get(k, 0) + v
        self.nontrivial |= other.nontrivial
        self.samples.update(other.samples)
        while len(self.samples) > N_SAMPLES:
            del self.samples[max(self.samples)]
        self.violations.extend(other.violations)


def load_check(cid):
    ensure_paths()
    return importlib.import_module('ppv.checks.' + cid.lower())


def safe_oracle(check, case):
    """Run the oracle; an exception escaping it is a harness error, never a violation."""
    try:
        return check.oracle(case)
    except HarnessError:
        raise
    except RecursionError:
        return skip('recursion-limit-in-harness')
    except Exception as e:
        # An exception that was raised INSIDE the package and that the oracle did not expect is the package
        # misbehaving on a generated input, not a fault of the harness: report it as a violation.
        tb = e.__traceback__
        inner = None
        while tb is not None:
            inner = tb.tb_frame.f_code.co_filename
            tb = tb.tb_next
        pkg = os.path.join(os.path.realpath(REPO_DIR), 'prettyprinter') + os.sep
        if inner and os.path.realpath(inner).startswith(pkg):
            return viol('package-raised', '%r raised inside %s\n%s' % (e, inner, traceback.format_exc()[-1200:]))
        raise HarnessError('oracle of %s crashed on case %s\n%s' % (
            check.ID, canonical(case)[:2000], traceback.format_exc()))


# --------------------------------------------------------------------------
# workers (run inside forked processes)

def _limit_memory():
    if os.environ.get('PPV_DEBUG_HANG'):
        import faulthandler
        faulthandler.dump_traceback_later(int(os.environ['PPV_DEBUG_HANG']), repeat=False, file=open('/tmp/ppv-hang-%d.txt' % os.getpid(), 'w'))
    try:
        import resource
        lim = int(os.environ.get('PPV_MEM_GB', '6')) << 30
        resource.setrlimit(resource.RLIMIT_AS, (lim, lim))
    except Exception:
        pass


def _worker_enumerate(args):
    cid, tier, shard, nshards, limit = args
    _limit_memory()
    check = load_check(cid)
    st = Stats()
    try:
        for idx, case in enumerate(check.enumerate_cases(tier)):
            if idx % nshards != shard:
                continue
            res = safe_oracle(check, case)
            st.record(case, res, 'exhaustive')
            if len(st.violations) >= limit:
                break
        return ('ok', st)
    except HarnessError as e:
        return ('harness', str(e))
    except Exception:
        return ('harness', traceback.format_exc())


def _worker_random(args):
    cid, tier, seed, shard, max_examples, shrink_budget = args
    _limit_memory()
    check = load_check(cid)
    st = Stats()
    try:
        run_hypothesis(check, tier, seed * 1000003 + shard, max_examples, st, shrink_budget)
        return ('ok', st)
    except HarnessError as e:
        return ('harness', str(e))
    except Exception:
        return ('harness', traceback.format_exc())


class _Violation(Exception):
    pass


def run_hypothesis(check, tier, hseed, max_examples, st, shrink_budget):
    ensure_deps()
    from hypothesis import given, settings, seed as hyp_seed, HealthCheck, Phase
    import hypothesis.errors as herr

    import warnings
    warnings.filterwarnings('ignore', category=herr.HypothesisWarning)
    state = {'first': None, 'best_key': None, 'best': None, 'harness': None}

    @hyp_seed(hseed)
    @settings(max_examples=max_examples, database=None, deadline=None, derandomize=False,
              report_multiple_bugs=False, suppress_health_check=list(HealthCheck),
              phases=[Phase.generate, Phase.shrink])
    @given(check.strategy(tier))
    def prop(case):
        if state['harness'] is not None:
            raise _Violation('harness')
        if state['first'] is not None and time.monotonic() - state['first'] > shrink_budget \
                and canonical(case) != state['best_key']:
            return      # shrink budget used up: only the current best is re-run (oracles can be expensive)
        try:
            res = safe_oracle(check, case)
        except HarnessError as e:
            state['harness'] = str(e)
            raise _Violation('harness')
        st.record(case, res, 'random', keep_violation=False)
        if res.status == VIOL:
            now = time.monotonic()
            if state['first'] is None:
                state['first'] = now
            key = canonical(case)
            if now - state['first'] > shrink_budget and key != state['best_key']:
                return
            state['best_key'] = key
            state['best'] = (res.code, res.detail, case)
            raise _Violation(res.code)

    try:
        prop()
    except _Violation:
        pass
    except herr.HypothesisException as e:
        if state['best'] is None and state['harness'] is None:
            raise HarnessError('hypothesis: %r' % (e,))
    if state['harness'] is not None:
        raise HarnessError(state['harness'])
    if state['best'] is not None:
        st.violations.append(state['best'])


# --------------------------------------------------------------------------
# evidence

def write_evidence(check, tier, seed, st, wall, extra=None, nviol=0):
    cov = {
        'evaluations': st.evaluations,
        'distinct_nontrivial': len(st.nontrivial),
        'rule': check.RULE,
        'samples': [json.loads(t) for _, t in sorted(st.samples.items())][:N_SAMPLES],
        'exhaustive': bool(st.phase.get('exhaustive')),
        'phases': dict(st.phase),
        'skipped': st.skipped,
        'known_finding_hits': dict(st.known_hits),
        'classes': dict(sorted(st.labels.items())),
    }
    if extra:
        cov.update(extra)
    ev = {
        'property_id': check.ID,
        'tier': tier,
        'seed': seed,
        'level': check.LEVEL,
        'coverage': cov,
        'assumptions': list(getattr(check, 'ASSUMPTIONS', [])),
        'wall_s': round(wall, 2),
        'violations': nviol,
    }
    path = os.path.join(os.environ.get('PPV_EVIDENCE_DIR') or os.path.join(VERIF_DIR, 'evidence'), check.ID + '.json')
    os.makedirs(os.path.dirname(path), exist_ok=True)
    tmp = path + '.tmp'
    with open(tmp, 'w') as f:
        json.dump(ev, f, indent=1, ensure_ascii=True, sort_keys=True)
        f.write('\n')
    os.replace(tmp, path)
    return path


def load_known_findings():
    path = os.path.join(VERIF_DIR, 'known_findings.json')
    if not os.path.exists(path):
        return []
    with open(path) as f:
        return json.load(f).get('findings', [])


def save_replay(cid, code, detail, case, directory=None):
    directory = directory or os.environ.get('PPV_FOUND_DIR') or os.path.join(VERIF_DIR, 'replays', 'found')
    os.makedirs(directory, exist_ok=True)
    h = hashlib.blake2b(canonical(case).encode(), digest_size=6).hexdigest()
    path = os.path.join(directory, '%s-%s.json' % (cid, h))
    with open(path, 'w') as f:
        json.dump({'property': cid, 'code': code, 'detail': detail, 'case': case}, f,
                  indent=1, ensure_ascii=True)
        f.write('\n')
    return path
