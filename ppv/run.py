"""CLI:  python -m ppv.run <ID> [--tier quick|thorough] [--replay FILE]

exit 0  property held on everything explored (KNOWN-FINDING lines possible)
exit 1  VIOLATION property=<id> replay=<path>
exit 2  harness error (never a violation)
"""
import argparse
import glob
import json
import multiprocessing
import os
import sys
import time
import traceback

from . import core


def _replay_files(cid):
    base = os.path.join(core.VERIF_DIR, 'replays')
    files = sorted(glob.glob(os.path.join(base, cid + '-*.json')))
    files += sorted(glob.glob(os.path.join(os.environ.get('PPV_FOUND_DIR') or os.path.join(base, 'found'), cid + '-*.json')))
    return files


def _load_case(path):
    with open(path) as f:
        data = json.load(f)
    if isinstance(data, dict) and 'case' in data:
        return data['case']
    return data


def run_fuzz_campaigns(check, cid, seed, procs, runs, st):
    """`procs` independent atheris/libFuzzer campaigns (ppv.fuzz) over the check's Hypothesis strategy"""
    import subprocess
    import tempfile
    tmp = tempfile.mkdtemp(prefix='ppv-fuzzstats-')
    jobs = []
    for i in range(procs):
        stats = os.path.join(tmp, 'stats%d.json' % i)
        cmd = [sys.executable, '-m', 'ppv.fuzz', cid, '--runs', str(runs), '--seed', str(seed * 1000 + i + 1), '--stats', stats,
               '--workdir', tmp]
        jobs.append((stats, subprocess.Popen(cmd, cwd=core.VERIF_DIR, stdout=subprocess.DEVNULL, stderr=subprocess.DEVNULL)))
    total = {'campaigns': procs, 'runs_per_campaign': runs, 'executions': 0, 'valid': 0, 'nontrivial': 0, 'violations': 0,
             'status': 'ok'}
    for stats, proc in jobs:
        rc = proc.wait()
        if rc == 3:
            total['status'] = 'atheris not available - skipped'
            continue
        try:
            with open(stats) as f:
                s = json.load(f)
        except (OSError, ValueError):
            continue
        for k in ('executions', 'valid', 'nontrivial', 'violations'):
            total[k] += s.get(k, 0)
        if s.get('replay') and os.path.exists(s['replay']):
            case = _load_case(s['replay'])
            res = core.safe_oracle(check, case)
            st.record(case, res, 'coverage-guided')
    import shutil
    shutil.rmtree(tmp, ignore_errors=True)
    st.evaluations += total['valid']
    st.phase['coverage-guided'] = st.phase.get('coverage-guided', 0) + total['valid']
    return total


def _pool_map(ctx, n, fn, tasks, tier):
    """pool.map that cannot hang: a worker that dies abruptly (killed, out of memory inside C code) loses its task and
    multiprocessing.Pool.map would wait for it forever.  Every task runs in a process of its own; a worker that exits
    without a result, or the whole phase exceeding a generous wall-clock ceiling, is a HARNESS error (exit 2,
    inconclusive) - never a violation."""
    import time
    ceiling = float(os.environ.get('PPV_PHASE_CEILING_S', 5400 if tier == 'thorough' else 1500))
    pending = list(enumerate(tasks))
    running = {}        # index -> (process, connection)
    results = {}
    deadline = time.time() + ceiling

    def child(conn, task):
        try:
            conn.send(fn(task))
        except BaseException as e:      # noqa
            try:
                conn.send(('harness', 'worker failed: %r' % (e,)))
            except Exception:
                pass
        finally:
            conn.close()
    while pending or running:
        while pending and len(running) < n:
            i, task = pending.pop(0)
            parent_conn, child_conn = ctx.Pipe(duplex=False)
            p = ctx.Process(target=child, args=(child_conn, task))
            p.start()
            child_conn.close()
            running[i] = (p, parent_conn)
        progressed = False
        for i, (p, conn) in list(running.items()):
            if conn.poll(0.05):
                try:
                    results[i] = conn.recv()
                except EOFError:
                    results[i] = ('harness', 'worker %d exited without a result (exit code %r)' % (i, p.exitcode))
                p.join()
                conn.close()
                del running[i]
                progressed = True
            elif not p.is_alive():
                p.join()
                results[i] = ('harness', 'worker %d died without a result (exit code %r)' % (i, p.exitcode))
                conn.close()
                del running[i]
                progressed = True
        if time.time() > deadline:
            for i, (p, conn) in running.items():
                p.kill()
                results[i] = ('harness', 'phase exceeded its wall-clock ceiling of %d s (inconclusive)' % ceiling)
            for i, task in pending:
                results[i] = ('harness', 'phase exceeded its wall-clock ceiling of %d s (inconclusive)' % ceiling)
            break
        if not progressed:
            time.sleep(0.05)
    return [results[i] for i in range(len(tasks))]


def main(argv=None):
    ap = argparse.ArgumentParser()
    ap.add_argument('id')
    ap.add_argument('--tier', default=os.environ.get('VERIF_TIER', 'quick'), choices=['quick', 'thorough'])
    ap.add_argument('--replay')
    ap.add_argument('--procs', type=int, default=int(os.environ.get('PPV_PROCS', '0')) or min(16, os.cpu_count() or 1))
    ap.add_argument('--scale', type=float, default=float(os.environ.get('PPV_SCALE', '1')))
    args = ap.parse_args(argv)
    core.reexec_if_needed()
    cid = args.id.upper()
    try:
        seed = int(os.environ.get('VERIF_SEED', '1'))
    except ValueError:
        seed = 1
    t0 = time.monotonic()
    try:
        core.ensure_deps()
        core.import_package()
        check = core.load_check(cid)
    except Exception:
        traceback.print_exc()
        print('HARNESS-ERROR property=%s could not initialise' % cid)
        return 2

    if args.replay:
        case = _load_case(args.replay)
        try:
            res = core.safe_oracle(check, case)
        except core.HarnessError as e:
            print(e)
            return 2
        print('replay %s: %s %s' % (args.replay, res.status, res.code or ''))
        if res.detail:
            print(res.detail)
        if res.status == core.VIOL:
            print('VIOLATION property=%s replay=%s' % (cid, args.replay))
            return 1
        return 0

    st = core.Stats()
    viols = []          # (code, detail, case, replay path or None)
    harness_errors = []
    budget = dict(check.BUDGET[args.tier])

    # 1. replay tier ---------------------------------------------------------
    try:
        for path in _replay_files(cid):
            case = _load_case(path)
            res = core.safe_oracle(check, case)
            st.record(case, res, 'replay', keep_violation=False)
            if res.status == core.VIOL:
                viols.append((res.code, res.detail, case, path))
        if hasattr(check, 'fixed_cases'):
            for case in check.fixed_cases():
                res = core.safe_oracle(check, case)
                st.record(case, res, 'fixed')
    except core.HarnessError as e:
        harness_errors.append(str(e))

    extra = {}
    # 2. custom phase (checks with their own driver, e.g. schedules, growth laws)
    if not harness_errors and hasattr(check, 'custom_phase'):
        try:
            ex = check.custom_phase(args.tier, seed, st, args.procs)
            if ex:
                extra.update(ex)
        except core.HarnessError as e:
            harness_errors.append(str(e))
        except Exception:
            harness_errors.append(traceback.format_exc())

    ctx = multiprocessing.get_context('fork')
    # 3. bounded-exhaustive tier ------------------------------------------------
    if not harness_errors and hasattr(check, 'enumerate_cases') and budget.get('exhaustive', True):
        n = args.procs
        outs = _pool_map(ctx, n, core._worker_enumerate, [(cid, args.tier, i, n, 5) for i in range(n)], args.tier)
        for kind, payload in outs:
            if kind == 'ok':
                st.merge(payload)
            else:
                harness_errors.append(payload)

    # 4. random tier ---------------------------------------------------------
    if not harness_errors and hasattr(check, 'strategy') and budget.get('random', 0):
        shards = budget.get('shards', args.procs)
        per = max(1, int(budget['random'] * args.scale) // shards)
        sb = budget.get('shrink_s', 20 if args.tier == 'quick' else 90)
        outs = _pool_map(ctx, min(shards, args.procs), core._worker_random, [(cid, args.tier, seed, i, per, sb) for i in range(shards)], args.tier)
        for kind, payload in outs:
            if kind == 'ok':
                st.merge(payload)
            else:
                harness_errors.append(payload)

    # 5. coverage-guided complement (thorough tier of the checks that ask for it) -------------------------
    fuzz_cfg = getattr(check, 'FUZZ', None)
    if not harness_errors and fuzz_cfg and args.tier == 'thorough' and os.environ.get('PPV_NO_FUZZ') != '1':
        try:
            extra['coverage_guided'] = run_fuzz_campaigns(check, cid, seed, args.procs, int(fuzz_cfg['runs'] * args.scale), st)
        except core.HarnessError as e:
            harness_errors.append(str(e))

    # collect violations, dedupe by code keeping smallest case
    best = {}
    for code, detail, case in st.violations:
        size = len(core.canonical(case))
        if code not in best or size < best[code][0]:
            best[code] = (size, detail, case)
    for code, (size, detail, case) in sorted(best.items()):
        path = core.save_replay(cid, code, detail, case)
        viols.append((code, detail, case, path))

    wall = time.monotonic() - t0
    if harness_errors:
        for e in harness_errors[:3]:
            print(e)
        print('HARNESS-ERROR property=%s (%d errors)' % (cid, len(harness_errors)))
        return 2

    core.write_evidence(check, args.tier, seed, st, wall, extra=extra, nviol=len(viols))

    # known findings: one line per listed, still-reproducing finding
    for kf in core.load_known_findings():
        if kf.get('property') != cid or kf.get('status') != 'known':
            continue
        hits = st.known_hits.get(kf['id'], 0)
        print('KNOWN-FINDING: property=%s %s (%s; %d generated cases hit it in this run)' % (
            cid, kf['id'], kf['what'], hits))

    print('%s %s seed=%d evaluations=%d distinct_nontrivial=%d skipped=%d wall=%.1fs' % (
        cid, args.tier, seed, st.evaluations, len(st.nontrivial), st.skipped, wall))
    if viols:
        seen = set()
        for code, detail, case, path in viols:
            print('--- %s: %s' % (code, (detail or '')[:1500]))
            if path in seen:
                continue
            seen.add(path)
            print('VIOLATION property=%s replay=%s' % (cid, os.path.relpath(path, core.VERIF_DIR)))
        return 1
    return 0


if __name__ == '__main__':
    sys.exit(main())
