#!/bin/sh
# usage: ppv/seedtest.sh <patch.diff> <check-id> [more check ids...]
# Applies the patch to a scratch worktree of /repo (under /tmp), runs the given checks against it via PPV_REPO,
# prints one line per check, removes the worktree.  /repo itself is never modified.
PATCH=$(readlink -f "$1"); shift
WT=$(mktemp -d /tmp/ppv-seedtest.XXXXXX)
rmdir "$WT"
git -C /repo worktree add --detach "$WT" HEAD >/dev/null 2>&1 || exit 2
if ! git -C "$WT" apply "$PATCH"; then echo "patch does not apply"; git -C /repo worktree remove --force "$WT"; exit 2; fi
cd /verif
for ID in "$@"; do
  OUT=$(PPV_REPO="$WT" PPV_EVIDENCE_DIR="$WT/.evidence" PPV_FOUND_DIR="$WT/.found" timeout ${SEED_TIMEOUT:-900} /venv/bin/python -m ppv.run "$ID" --tier ${TIER:-quick} ${SCALE:+--scale $SCALE} 2>&1)
  RC=$?
  echo "$ID rc=$RC $(echo "$OUT" | grep -E '^---' | head -2 | cut -c1-200 | tr '\n' '|')"
done
git -C /repo worktree remove --force "$WT"
