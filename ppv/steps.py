"""Step meter: counts executed source lines inside the prettyprinter package.

Uses sys.monitoring (PEP 669). LINE events in code objects outside the package
are disabled on first sight, so foreign code runs at full speed.
"""
import os
import sys

_mon = sys.monitoring
TOOL = 4


class StepBudgetExceeded(BaseException):
    """BaseException so that the package's `except Exception` cannot swallow it."""


class Meter:
    def __init__(self):
        import prettyprinter
        self.pkg = os.path.dirname(os.path.realpath(prettyprinter.__file__)) + os.sep
        self.count = 0
        self.cap = None
        self.active = False
        self.on = False
        self._known = {}

    def _line(self, code, lineno):
        k = self._known.get(code)
        if k is None:
            fn = code.co_filename
            k = self._known[code] = os.path.realpath(fn).startswith(self.pkg) if fn and not fn.startswith('<') else False
        if not k:
            return _mon.DISABLE
        if not self.on:
            return None
        self.count += 1
        if self.cap is not None and self.count > self.cap:
            self.cap = None
            self.on = False
            raise StepBudgetExceeded(self.count)

    def start(self, cap=None):
        self.count = 0
        self.cap = cap
        if not self.active:
            _mon.use_tool_id(TOOL, 'ppv-steps')
            _mon.register_callback(TOOL, _mon.events.LINE, self._line)
            self.active = True
        # Note: set_events re-instruments all code (~3 ms); while events are on every package
        # line costs a callback (~1.5 us), so they are switched off again in stop().
        _mon.set_events(TOOL, _mon.events.LINE)
        self.on = True

    def stop(self):
        if self.on:
            _mon.set_events(TOOL, 0)
        self.on = False
        self.cap = None
        return self.count

    def close(self):
        if self.active:
            _mon.set_events(TOOL, 0)
            _mon.register_callback(TOOL, _mon.events.LINE, None)
            _mon.free_tool_id(TOOL)
            self.active = False


_METER = None


def meter():
    global _METER
    if _METER is None:
        _METER = Meter()
    return _METER


def measure(fn, cap=None):
    """returns (steps, result, exceeded)"""
    m = meter()
    m.start(cap)
    try:
        res = fn()
        return m.stop(), res, False
    except StepBudgetExceeded:
        return m.stop(), None, True
    finally:
        m.stop()
