"""Step meter: counts executed source lines inside the prettyprinter package.

Uses sys.monitoring (PEP 669). LINE events in code objects outside the package
are disabled on first sight, so foreign code runs at full speed.
"""
import os
import sys

_mon = sys.monitoring
TOOL = 4


class StepBudgetExceeded(BaseException):
    """BaseException so that the package's `except Exception` cannot swallow it."""


class Meter:
    def __init__(self):
        import prettyprinter
        self.pkg = os.path.dirname(os.path.realpath(prettyprinter.__file__)) + os.sep
        self.harness = os.path.dirname(os.path.realpath(__file__)) + os.sep
        self.count = 0
        self.cap = None
        self.active = False
        self.on = False
        self.all_code = False
        self.count_all = 0
        self.cap_all = 0
        self._known = {}

    def _line(self, code, lineno):
        k = self._known.get(code)
        if k is None:
            fn = code.co_filename
            k = self._known[code] = os.path.realpath(fn).startswith(self.pkg) if fn and not fn.startswith('<') else False
        if not k:
            if self.all_code and self.on and not code.co_filename.startswith(self.harness):
                # fallback mode of guarded(): lines of ANY code count (e.g. traceback formatting triggered by the package)
                self.count_all += 1
                if self.count_all > self.cap_all:
                    # keeps raising on every further line: a bare `except:` (traceback.py has some) may swallow one
                    raise StepBudgetExceeded(self.count_all)
                return None
            return _mon.DISABLE
        if not self.on:
            return None
        self.count += 1
        if self.cap is not None and self.count > self.cap:
            raise StepBudgetExceeded(self.count)

    def start(self, cap=None):
        self.count = 0
        self.cap = cap
        # lines of foreign code run on behalf of the package (stdlib traceback formatting, re, functools ...) are
        # bounded too, generously: an unbounded loop outside the package must not hang a metered call either
        self.all_code = cap is not None
        self.count_all = 0
        self.cap_all = 25 * cap + 10 ** 6 if cap is not None else 0
        if not self.active:
            _mon.use_tool_id(TOOL, 'ppv-steps')
            _mon.register_callback(TOOL, _mon.events.LINE, self._line)
            self.active = True
        # Note: set_events re-instruments all code (~3 ms); while events are on every package
        # line costs a callback (~1.5 us), so they are switched off again in stop().
        if self.all_code:
            _mon.restart_events()       # re-enable locations that an uncapped run has DISABLEd
        _mon.set_events(TOOL, _mon.events.LINE)
        self.on = True

    def stop(self):
        if self.on:
            _mon.set_events(TOOL, 0)
        self.on = False
        self.cap = None
        self.all_code = False
        return self.count

    def close(self):
        if self.active:
            _mon.set_events(TOOL, 0)
            _mon.register_callback(TOOL, _mon.events.LINE, None)
            _mon.free_tool_id(TOOL)
            self.active = False


_METER = None


def meter():
    global _METER
    if _METER is None:
        _METER = Meter()
    return _METER


def measure(fn, cap=None):
    """returns (steps, result, exceeded)"""
    m = meter()
    m.start(cap)
    try:
        res = fn()
        return m.stop(), res, False
    except StepBudgetExceeded:
        return m.stop(), None, True
    finally:
        m.stop()


class _Stalled(BaseException):
    pass


def guarded(fn, cap, cpu_seconds=5.0):
    """Run fn() at full speed under a CPU-time alarm.  If the alarm fires the call is abandoned and REPEATED under the
    step meter with `cap`: the verdict (exceeded or not) is always decided by executed package lines, never by time;
    the alarm only keeps an unmetered runaway call from hanging the check.  -> (result or None, exceeded)
    Main thread only (signal)."""
    import signal

    def on_alarm(signum, frame):
        raise _Stalled()
    old = signal.signal(signal.SIGVTALRM, on_alarm)
    # periodic: the exception is raised again every 0.25 s of CPU until it lands outside a bare `except:`
    signal.setitimer(signal.ITIMER_VIRTUAL, cpu_seconds, 0.25)
    try:
        try:
            res = fn()
        finally:
            signal.setitimer(signal.ITIMER_VIRTUAL, 0)
        return res, False
    except _Stalled:
        pass
    finally:
        signal.setitimer(signal.ITIMER_VIRTUAL, 0)
        signal.signal(signal.SIGVTALRM, old)
    n, res, exceeded = measure(fn, cap=cap)
    return res, exceeded
