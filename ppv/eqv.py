"""Type-strict structural equality through a totally ordered canonical form."""
import math


def canon(v, dict_mode='keep'):
    """dict_mode: 'keep' insertion order, 'sort' canonical order of pairs,
    or a callable(dict) -> 'keep' | 'sort' | list of keys in expected order."""
    t = type(v)
    if t is float:
        if math.isnan(v):
            return ('float', 'nan')
        return ('float', v.hex())
    if t is int:
        return ('int', v)
    if t is bool:
        return ('bool', v)
    if t is str:
        return ('str', v)
    if t is bytes:
        return ('bytes', v)
    if v is None:
        return ('none',)
    if v is Ellipsis:
        return ('ell',)
    if t is list or t is tuple:
        return (t.__name__, tuple(canon(x, dict_mode) for x in v))
    if t is set or t is frozenset:
        return (t.__name__, tuple(sorted(canon(x, dict_mode) for x in v)))
    if t is dict:
        mode = dict_mode(v) if callable(dict_mode) else dict_mode
        pairs = [(canon(k, dict_mode), canon(x, dict_mode)) for k, x in v.items()]
        if mode == 'sort':
            pairs.sort()
        elif isinstance(mode, list):
            pairs = [(canon(k, dict_mode), canon(v[k], dict_mode)) for k in mode]
        return ('dict', tuple(pairs))
    return ('other', t.__module__ + '.' + t.__qualname__, repr(v))


def same(a, b, dict_mode='keep'):
    return canon(a, dict_mode) == canon(b, dict_mode)


_SCALAR_OK = (int, float, bool, str, bytes)


def _keys_plain(k):
    if type(k) is tuple:
        return all(_keys_plain(x) for x in k)
    if type(k) is float:
        return not math.isnan(k)
    return type(k) in _SCALAR_OK


def mutually_comparable(keys):
    """Conservative: only plain scalars / tuples of them, no nan, every pair orders without TypeError."""
    keys = list(keys)
    if len(keys) > 40:
        return False
    if not all(_keys_plain(k) for k in keys):
        return False
    try:
        for i, a in enumerate(keys):
            for b in keys[i + 1:]:
                if not ((a < b) or (b < a)):
                    return False
    except TypeError:
        return False
    return True


def expected_mode(sort_keys):
    """dict_mode callable for the *expected* side."""
    def mode(d):
        if not sort_keys:
            return 'keep'
        if mutually_comparable(d.keys()):
            return sorted(d.keys())
        return 'sort'
    return mode


def actual_mode(sort_keys):
    def mode(d):
        if not sort_keys:
            return 'keep'
        if mutually_comparable(d.keys()):
            return 'keep'
        return 'sort'
    return mode
