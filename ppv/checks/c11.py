"""C11 - depth cuts off exactly below the requested nesting level."""
import ast

from .. import core, values
from . import c01

ID = 'C11'
LEVEL = 'exploration'
RULE = ('case = (container tree over list/tuple/set/frozenset/dict whose leaves are pairwise distinct ints, strs, bytes '
        'and floats (inf, -inf and nan at most once each), optionally with comment() on list elements / dict values / the root (comments are inert for depth), '
        'depth d in {0..height+2, None}, width in {20, 200}). Exhaustive: all shapes with <= 4 (quick) / 5 '
        '(thorough) nodes x every d; random: Hypothesis shapes up to 25 leaves. Oracle: the ASTs of the depth-d output '
        'and of the unlimited output are walked in parallel, driven by the value: an element inside k containers is '
        'the placeholder of its own type ([...], (...), {...}, T(...)) iff k >= d, otherwise node type and arity agree '
        'and the walk recurses; for d > height the text is identical to depth=None. Tolerances (statement silent / '
        'documented): str/bytes dict keys exactly at the cut may print in full; empty list/tuple/set beyond the cut may '
        'print in full. non-trivial = 1 <= d <= height; distinct by case hash')
ASSUMPTIONS = ['bool/None/Ellipsis leaves are not generated (not uniquely identifiable, no placeholder form)',
               'ast.parse of CPython defines the syntax tree']
BUDGET = {'quick': {'random': 6000, 'shards': 16}, 'thorough': {'random': 300000, 'shards': 16}}

PH_SRC = {list: '[...]', tuple: '(...)', dict: '{...}', set: 'set(...)', frozenset: 'frozenset(...)', int: 'int(...)',
          float: 'float(...)', str: 'str(...)', bytes: 'bytes(...)'}
_PH_DUMP = {}


def is_ph(node, typ):
    if typ not in _PH_DUMP:
        _PH_DUMP[typ] = ast.dump(ast.parse(PH_SRC[typ], mode='eval').body)
    return ast.dump(node) == _PH_DUMP[typ]


def relabel(r, counter=None):
    """make every leaf unique (kinds cycle through int, str, bytes, float)"""
    if counter is None:
        counter = [100, ['inf', '-inf', 'nan']]     # (next number, special floats not used yet: each at most once)
    t = r[0]
    if t in ('list', 'tuple', 'set', 'fset'):
        return [t, [relabel(x, counter) for x in r[1]]]
    if t == 'dict':
        return [t, [[relabel(k, counter), relabel(v, counter)] for k, v in r[1]]]
    counter[0] += 1
    i = counter[0]
    kind = r[1] if t == 'leaf' else i % 4
    if kind == 0:
        return ['int', i]
    if kind == 1:
        return ['str', 's%d' % i]
    if kind == 2:
        return ['bytes', ('b%d' % i).encode().hex()]
    if i % 7 == 3 and counter[1]:
        return ['float', counter[1].pop(0)]
    return ['float', repr(i + 0.5)]


def enumerate_cases(tier):
    maxn = 4 if tier == 'quick' else 5
    old = c01.LEAVES
    c01.LEAVES = [['leaf', 0], ['leaf', 1]]
    try:
        shapes = [t for n in range(1, maxn + 1) for t in c01.trees(n)]
    finally:
        c01.LEAVES = old
    for shp in shapes:
        r = relabel(shp)
        h = values.height(r)
        for d in list(range(0, h + 3)) + [None]:
            yield {'v': r, 'd': d, 'width': 200}
            if d is not None and 1 <= d <= h:
                yield {'v': r, 'd': d, 'width': 20}


def strategy(tier):
    from hypothesis import strategies as st
    leaf = st.integers(0, 3).map(lambda k: ['leaf', k])
    hashable = st.recursive(leaf, lambda ch: st.one_of(
        st.lists(ch, max_size=3).map(lambda xs: ['tuple', xs]),
        st.lists(ch, max_size=3).map(lambda xs: ['fset', xs])), max_leaves=5)

    def ext(ch):
        return st.one_of(
            st.lists(ch, max_size=4).map(lambda xs: ['list', xs]),
            st.lists(ch, max_size=3).map(lambda xs: ['tuple', xs]),
            st.lists(hashable, max_size=3).map(lambda xs: ['set', xs]),
            st.lists(hashable, max_size=3).map(lambda xs: ['fset', xs]),
            st.lists(st.tuples(hashable, ch).map(list), max_size=3).map(lambda kv: ['dict', kv]),
        )
    def decorate(p):
        # comments on values (not on dict keys / set elements): list elements, dict values, the root
        tree, picks = p
        state = {'n': 0}

        def rec(r, allowed):
            t = r[0]
            if t in ('list', 'tuple'):
                r = [t, [rec(x, True) for x in r[1]]]
            elif t == 'dict':
                r = [t, [[k, rec(v, True)] for k, v in r[1]]]
            state['n'] += 1
            if allowed and picks and state['n'] % 7 in picks:
                return ['cmt', 'a comment that is long enough to be put above its value %d' % state['n'], r]
            return r
        return rec(tree, True)
    plain = st.recursive(leaf, ext, max_leaves=25).map(relabel)
    tree = st.one_of(plain, plain, st.tuples(plain, st.sets(st.integers(0, 6), min_size=1, max_size=3).map(sorted)).map(decorate))
    return st.fixed_dictionaries({
        'v': tree,
        'd': st.one_of(st.none(), st.integers(0, 3), st.integers(0, 8)),
        'width': st.sampled_from([20, 200]),
    })


class Bad(Exception):
    pass


def walk(v, full, cut, k, d, ctxkey=False):
    from prettyprinter.prettyprinter import unwrap_comments
    v = unwrap_comments(v)[0]       # comments are inert: they neither add nor remove a nesting level
    typ = type(v)
    must_ph = k >= d
    ph = is_ph(cut, typ)
    same = ast.dump(cut) == ast.dump(full)
    if typ in (list, tuple, set, frozenset) and len(v) == 0 and must_ph:
        if typ is frozenset:
            # frozenset() is printed through the call path: placeholder or full form
            if ph or same:
                return
        elif ph or same:
            return
        raise Bad('empty %s beyond the cut printed as %s' % (typ.__name__, ast.dump(cut)[:100]))
    if ctxkey and typ in (str, bytes) and k == d:
        if ph or same:
            return
        raise Bad('str key at the cut: %r -> %s' % (v, ast.dump(cut)[:100]))
    if must_ph:
        if not ph:
            raise Bad('%r is inside %d containers (depth %d) but is not a %s placeholder: %s' % (v, k, d, typ.__name__, ast.dump(cut)[:120]))
        return
    if type(full) is not type(cut):
        raise Bad('node type differs at %r: %s vs %s' % (v, ast.dump(full)[:80], ast.dump(cut)[:80]))
    if typ in (list, tuple) or (typ is set and v):
        fe, ce = full.elts, cut.elts
        items = list(v)
        if len(fe) != len(ce) or len(fe) != len(items):
            raise Bad('arity differs at %r' % (v,))
        for x, f, c in zip(items, fe, ce):
            walk(x, f, c, k + 1, d)
    elif typ is set:
        if not same:
            raise Bad('empty set differs')
    elif typ is frozenset:
        if not v:
            if not same:
                raise Bad('empty frozenset differs')
            return
        if not (isinstance(cut, ast.Call) and cut.args and isinstance(cut.args[0], ast.List)):
            raise Bad('frozenset form: %s' % ast.dump(cut)[:100])
        fe, ce = full.args[0].elts, cut.args[0].elts
        items = list(v)
        if len(fe) != len(ce) or len(fe) != len(items):
            raise Bad('arity differs at %r' % (v,))
        for x, f, c in zip(items, fe, ce):
            walk(x, f, c, k + 1, d)
    elif typ is dict:
        if len(full.keys) != len(cut.keys) or len(full.keys) != len(v):
            raise Bad('arity differs at %r' % (v,))
        for (kk, x), fk, fv, ck, cv in zip(v.items(), full.keys, full.values, cut.keys, cut.values):
            walk(kk, fk, ck, k + 1, d, ctxkey=True)
            walk(x, fv, cv, k + 1, d)
    else:
        if not same:
            raise Bad('leaf %r differs: %s' % (v, ast.dump(cut)[:100]))


def fixed_cases():
    for d in (0, 1, 2, 3, None):        # special floats are floats: full above the cut, float(...) below
        yield {'v': ['list', [['float', 'inf'], ['list', [['float', 'nan'], ['float', '1.5']]], ['dict', [[['float', '-inf'], ['int', 1]]]]]], 'd': d, 'width': 200}
    deep = ['dict', [[['str', 's1'], ['cmt', 'a comment long enough to go above the value', ['list', [['int', 1], ['list', [['int', 2], ['list', [['int', 3]]]]]]]]]]]
    for d in (0, 1, 2, 3, 4, 5, None):
        for w in (20, 200):
            yield {'v': deep, 'd': d, 'width': w}


def oracle(case):
    v = values.build(case['v'])
    d = case['d']
    w = case['width']
    h = values.height(case['v'])
    base = values.pp(v, width=w, ribbon_width=w)
    if base.exc is not None or base.fallback_warnings():
        return core.viol('unlimited-print-failed', repr(base.exc or base.fallback_warnings()[0])[:300])
    p = values.pp(v, width=w, ribbon_width=w, depth=d)
    if p.exc is not None:
        return core.viol('pformat-raised', repr(p.exc))
    if p.fallback_warnings():
        return core.viol('printer-failed', p.fallback_warnings()[0][:300])
    labels = []
    if d is None or d > h:
        if p.text != base.text:
            return core.viol('deep-limit-changes-output', 'depth=%r height=%d\n%s\nvs\n%s' % (d, h, p.text[:300], base.text[:300]))
        return core.ok(False, ['d>height' if d is not None else 'd=None'])
    try:
        full = ast.parse('(' + base.text + '\n)', mode='eval').body
        cut = ast.parse('(' + p.text + '\n)', mode='eval').body
    except SyntaxError as e:
        return core.viol('not-an-expression', '%r\n%s' % (e, p.text[:400]))
    try:
        walk(v, full, cut, 0, d)
    except Bad as e:
        return core.viol('wrong-cut', 'depth=%d: %s\n%s' % (d, e, p.text[:500]))
    except (AttributeError, IndexError) as e:
        return core.viol('wrong-cut', 'depth=%d: unexpected node shape %r\n%s' % (d, e, p.text[:500]))
    return core.ok(1 <= d <= h, labels)
