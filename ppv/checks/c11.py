"""C11 - depth cuts off exactly below the requested nesting level."""
import ast

from .. import core, gens, values
from . import c01

ID = 'C11'
LEVEL = 'exploration'
RULE = ('case = (container tree over list/tuple/set/frozenset/dict whose leaves are pairwise distinct ints, strs, bytes '
        'and floats (inf, -inf and nan at most once each), optionally with comment() on list elements / dict values / the root (comments are inert for depth), '
        'depth d in {0..height+2, None}, width in {20, 200}). Exhaustive: all shapes with <= 4 (quick) / 5 '
        '(thorough) nodes x every d; random: Hypothesis shapes up to 25 leaves. Oracle: the ASTs of the depth-d output '
        'and of the unlimited output are walked in parallel, driven by the value: an element inside k containers is '
        'the placeholder of its own type ([...], (...), {...}, T(...)) iff k >= d, otherwise node type and arity agree '
        'and the walk recurses; for d > height the text is identical to depth=None. Tolerances (statement silent / '
        'documented): str/bytes dict keys exactly at the cut may print in full; empty list/tuple/set beyond the cut may '
        'print in full. Generic cases: trees that also hold pretty_call objects (one / several positional and keyword '
        'arguments), instances of user subclasses of the containers, dataclass / attrs instances (extras installed), deque, OrderedDict, defaultdict, Counter, ChainMap, mappingproxy, namedtuple and SimpleNamespace are '
        'judged by a walk driven by the two syntax trees with a level band per node (a list / dict / tuple literal passed '
        'as a positional argument may or may not count as a container of its own): full form required when the highest '
        'count is < d, placeholder of the node\'s own type required when the lowest count is >= d, otherwise same node '
        'type / callee / keywords / arity and recurse; identical text for d above the highest count. Fixed cases include calls whose sole positional argument is an instance of a subclass of list / dict / tuple (OrderedDict, defaultdict, Counter, namedtuple, user subclasses), which counts as a level. '
        'non-trivial = 1 <= d <= height; distinct by case hash')
ASSUMPTIONS = ['bool/None/Ellipsis leaves are not generated (not uniquely identifiable, no placeholder form)',
               'ast.parse of CPython defines the syntax tree']
BUDGET = {'quick': {'random': 6000, 'shards': 16}, 'thorough': {'random': 300000, 'shards': 16}}

PH_SRC = {list: '[...]', tuple: '(...)', dict: '{...}', set: 'set(...)', frozenset: 'frozenset(...)', int: 'int(...)',
          float: 'float(...)', str: 'str(...)', bytes: 'bytes(...)'}
_PH_DUMP = {}


def is_ph(node, typ):
    if typ not in _PH_DUMP:
        _PH_DUMP[typ] = ast.dump(ast.parse(PH_SRC[typ], mode='eval').body)
    return ast.dump(node) == _PH_DUMP[typ]


def relabel(r, counter=None):
    """make every leaf unique (kinds cycle through int, str, bytes, float)"""
    if counter is None:
        counter = [100, ['inf', '-inf', 'nan']]     # (next number, special floats not used yet: each at most once)
    t = r[0]
    if t in ('list', 'tuple', 'set', 'fset'):
        return [t, [relabel(x, counter) for x in r[1]]]
    if t == 'dict':
        return [t, [[relabel(k, counter), relabel(v, counter)] for k, v in r[1]]]
    counter[0] += 1
    i = counter[0]
    kind = r[1] if t == 'leaf' else i % 4
    if kind == 0:
        return ['int', i]
    if kind == 1:
        return ['str', 's%d' % i]
    if kind == 2:
        return ['bytes', ('b%d' % i).encode().hex()]
    if i % 7 == 3 and counter[1]:
        return ['float', counter[1].pop(0)]
    return ['float', repr(i + 0.5)]


def enumerate_cases(tier):
    maxn = 4 if tier == 'quick' else 5
    old = c01.LEAVES
    c01.LEAVES = [['leaf', 0], ['leaf', 1]]
    try:
        shapes = [t for n in range(1, maxn + 1) for t in c01.trees(n)]
    finally:
        c01.LEAVES = old
    for shp in shapes:
        r = relabel(shp)
        h = values.height(r)
        for d in list(range(0, h + 3)) + [None]:
            yield {'v': r, 'd': d, 'width': 200}
            if d is not None and 1 <= d <= h:
                yield {'v': r, 'd': d, 'width': 20}


def strategy(tier):
    from hypothesis import strategies as st
    leaf = st.integers(0, 3).map(lambda k: ['leaf', k])
    hashable = st.recursive(leaf, lambda ch: st.one_of(
        st.lists(ch, max_size=3).map(lambda xs: ['tuple', xs]),
        st.lists(ch, max_size=3).map(lambda xs: ['fset', xs])), max_leaves=5)

    def ext(ch):
        return st.one_of(
            st.lists(ch, max_size=4).map(lambda xs: ['list', xs]),
            st.lists(ch, max_size=3).map(lambda xs: ['tuple', xs]),
            st.lists(hashable, max_size=3).map(lambda xs: ['set', xs]),
            st.lists(hashable, max_size=3).map(lambda xs: ['fset', xs]),
            st.lists(st.tuples(hashable, ch).map(list), max_size=3).map(lambda kv: ['dict', kv]),
        )
    def decorate(p):
        # comments on values (not on dict keys / set elements): list elements, dict values, the root
        tree, picks = p
        state = {'n': 0}

        def rec(r, allowed):
            t = r[0]
            if t in ('list', 'tuple'):
                r = [t, [rec(x, True) for x in r[1]]]
            elif t == 'dict':
                r = [t, [[k, rec(v, True)] for k, v in r[1]]]
            state['n'] += 1
            if allowed and picks and state['n'] % 7 in picks:
                return ['cmt', 'a comment that is long enough to be put above its value %d' % state['n'], r]
            return r
        return rec(tree, True)
    plain = st.recursive(leaf, ext, max_leaves=25).map(relabel)
    tree = st.one_of(plain, plain, st.tuples(plain, st.sets(st.integers(0, 6), min_size=1, max_size=3).map(sorted)).map(decorate))
    # generic cases: containers reached through call-style printers (pretty_call objects, deque, OrderedDict, defaultdict,
    # Counter, ChainMap, mappingproxy, namedtuple, SimpleNamespace); judged by the syntax-tree walk with a level band
    from .. import stdvals
    S = values.strategies()
    gleaf = st.one_of(S['r_int'], S['r_str'], S['r_int'], S['r_str'],
                      # scalars in the wrapper of a user subclass (IntEnum members included)
                      st.tuples(st.sampled_from(['plain', 'repr']), S['r_int']).map(lambda p: ['sub', 'int', p[0], p[1]]),
                      st.sampled_from([['sub', 'int', 'enum', ['int', 1]], ['sub', 'float', 'plain', ['float', '2.5']], ['sub', 'float', 'repr', ['float', 'inf']],
                                       ['sub', 'str', 'plain', ['str', 'text']], ['sub', 'bytes', 'plain', ['bytes', '6162']], ['sub', 'str', 'enum', ['str', 'a']]]))
    ghash = st.recursive(gleaf, S['hashable_ext'], max_leaves=5)

    # instances printed as calls with scalar arguments (their arguments sit one level deeper, like those of any call)
    _parts = stdvals.std_strategy(S)
    # (naive times only: tzinfo objects print through their repr, which knows no depth)
    _naive = lambda r: r[:3] + [None] + r[4:]
    gleaf_ = st.one_of(gleaf, gleaf, gleaf, _parts['timedelta'], _parts['date'], _parts['time'].map(_naive), _parts['datetime'].map(_naive), _parts['uuid'])
    # (st.deferred keeps the repr of these nested strategies short: Hypothesis formats it into event strings, and the
    # fully expanded text of a strategy that is used at many places of a recursive one runs into gigabytes)
    gleaf = st.deferred(lambda: gleaf_)

    def gext(ch):
        return st.one_of(
            st.lists(ch, max_size=3).map(lambda xs: ['list', xs]),
            st.lists(ch, max_size=3).map(lambda xs: ['tuple', xs]),
            st.lists(st.tuples(ghash, ch).map(list), max_size=3).map(lambda kv: ['dict', kv]),
            st.tuples(st.sampled_from(['box', 'alt']), st.lists(ch, max_size=3),
                      gens.named_values(st, ['a', 'b'], ch, 2)).map(
                lambda p: ['call', p[0], p[1], p[2]]),
            # instances of user subclasses of the containers
            st.tuples(st.sampled_from(['plain', 'repr']), st.lists(ch, max_size=3)).map(lambda p: ['sub', 'list', p[0], ['list', p[1]]]),
            st.tuples(st.sampled_from(['plain', 'str']), st.lists(ch, max_size=3)).map(lambda p: ['sub', 'tuple', p[0], ['tuple', p[1]]]),
            st.tuples(st.sampled_from(['plain', 'repr']), st.lists(st.tuples(ghash, ch).map(list), max_size=3)).map(
                lambda p: ['sub', 'dict', p[0], ['dict', p[1]]]),
            st.lists(ghash, max_size=3).map(lambda xs: ['sub', 'frozenset', 'plain', ['fset', xs]]),
            # dataclass / attrs instances (extras installed): fields are keyword arguments
            st.tuples(ch, st.lists(ch, max_size=2)).map(lambda p: ['dcinst', 'DInner', [p[0], ['list', p[1]]]]),
            st.tuples(ch, ch).map(lambda p: ['dcinst', 'DFrozen', [p[0], p[1]]]),
            st.tuples(ch, st.lists(ch, max_size=2)).map(lambda p: ['dcinst', 'AInner', [p[0], ['list', p[1]]]]),
        )
    small_ = st.recursive(gleaf, gext, max_leaves=8)
    small = st.deferred(lambda: small_)
    ghash_ = ghash
    ghash = st.deferred(lambda: ghash_)
    parts = stdvals.std_strategy(S, payload=small, hashable=ghash)
    std_tree_ = st.one_of(*[parts[k] for k in ('odict', 'ddict', 'deque', 'counter', 'chainmap', 'mproxy', 'ns', 'ntuple')])
    std_tree = st.deferred(lambda: std_tree_)
    gtree = st.one_of(std_tree, st.recursive(st.one_of(gleaf, std_tree), gext, max_leaves=10))
    generic = st.fixed_dictionaries({
        'v': gtree, 'd': st.one_of(st.none(), st.integers(0, 4), st.integers(0, 9)), 'width': st.sampled_from([20, 79, 200]),
        'generic': st.just(True), 'sort': st.sampled_from([False, False, True])})
    return st.one_of(generic, st.fixed_dictionaries({
        'v': tree,
        'd': st.one_of(st.none(), st.integers(0, 3), st.integers(0, 8)),
        'width': st.sampled_from([20, 200]),
    }), st.fixed_dictionaries({
        'v': tree,
        'd': st.one_of(st.none(), st.integers(0, 3), st.integers(0, 8)),
        'width': st.sampled_from([20, 200]),
    }))


class Bad(Exception):
    pass


def walk(v, full, cut, k, d, ctxkey=False):
    from prettyprinter.prettyprinter import unwrap_comments
    v = unwrap_comments(v)[0]       # comments are inert: they neither add nor remove a nesting level
    typ = type(v)
    must_ph = k >= d
    ph = is_ph(cut, typ)
    same = ast.dump(cut) == ast.dump(full)
    if typ in (list, tuple, set, frozenset) and len(v) == 0 and must_ph:
        if typ is frozenset:
            # frozenset() is printed through the call path: placeholder or full form
            if ph or same:
                return
        elif ph or same:
            return
        raise Bad('empty %s beyond the cut printed as %s' % (typ.__name__, ast.dump(cut)[:100]))
    if ctxkey and typ in (str, bytes) and k == d:
        if ph or same:
            return
        raise Bad('str key at the cut: %r -> %s' % (v, ast.dump(cut)[:100]))
    if must_ph:
        if not ph:
            raise Bad('%r is inside %d containers (depth %d) but is not a %s placeholder: %s' % (v, k, d, typ.__name__, ast.dump(cut)[:120]))
        return
    if type(full) is not type(cut):
        raise Bad('node type differs at %r: %s vs %s' % (v, ast.dump(full)[:80], ast.dump(cut)[:80]))
    if typ in (list, tuple) or (typ is set and v):
        fe, ce = full.elts, cut.elts
        items = list(v)
        if len(fe) != len(ce) or len(fe) != len(items):
            raise Bad('arity differs at %r' % (v,))
        for x, f, c in zip(items, fe, ce):
            walk(x, f, c, k + 1, d)
    elif typ is set:
        if not same:
            raise Bad('empty set differs')
    elif typ is frozenset:
        if not v:
            if not same:
                raise Bad('empty frozenset differs')
            return
        if not (isinstance(cut, ast.Call) and cut.args and isinstance(cut.args[0], ast.List)):
            raise Bad('frozenset form: %s' % ast.dump(cut)[:100])
        fe, ce = full.args[0].elts, cut.args[0].elts
        items = list(v)
        if len(fe) != len(ce) or len(fe) != len(items):
            raise Bad('arity differs at %r' % (v,))
        for x, f, c in zip(items, fe, ce):
            walk(x, f, c, k + 1, d)
    elif typ is dict:
        if len(full.keys) != len(cut.keys) or len(full.keys) != len(v):
            raise Bad('arity differs at %r' % (v,))
        for (kk, x), fk, fv, ck, cv in zip(v.items(), full.keys, full.values, cut.keys, cut.values):
            walk(kk, fk, ck, k + 1, d, ctxkey=True)
            walk(x, fv, cv, k + 1, d)
    else:
        if not same:
            raise Bad('leaf %r differs: %s' % (v, ast.dump(cut)[:100]))


_ELL = "Constant(value=Ellipsis)"


def _is_ell(n):
    return isinstance(n, ast.Constant) and n.value is Ellipsis


def placeholder_for(full):
    """the AST dump of the ellipsis placeholder of the expression `full`, or None when it has none"""
    if isinstance(full, ast.List):
        src = '[...]'
    elif isinstance(full, ast.Tuple):
        src = '(...)'
    elif isinstance(full, ast.Dict):
        src = '{...}'
    elif isinstance(full, ast.Set):
        src = 'set(...)'
    elif isinstance(full, ast.Call):
        return ast.dump(ast.Call(func=full.func, args=[ast.Constant(value=Ellipsis)], keywords=[]))
    elif isinstance(full, ast.Constant) and type(full.value) in (int, float, str, bytes):
        src = type(full.value).__name__ + '(...)'
    elif isinstance(full, ast.UnaryOp) and isinstance(full.operand, ast.Call):
        return placeholder_for(full.operand)        # -datetime.timedelta(days=1): the placeholder carries no sign
    elif isinstance(full, ast.UnaryOp) and isinstance(full.operand, ast.Constant) and type(full.operand.value) in (int, float):
        src = type(full.operand.value).__name__ + '(...)'
    else:
        return None
    return ast.dump(ast.parse(src, mode='eval').body)


_SCALAR_WRAPPERS = set()


def _scalar_wrapper(func):
    """is `func` one of the generated subclasses of int / float / str / bytes (not a pretty_call object such as Box)"""
    if not _SCALAR_WRAPPERS:
        from .. import vtypes
        _SCALAR_WRAPPERS.update(cls.__qualname__ for (base, _), cls in vtypes.SUBCLASSES.items() if base in ('int', 'float', 'str', 'bytes'))
    return isinstance(func, ast.Attribute) and func.attr in _SCALAR_WRAPPERS


def _is_scalar(e):
    if isinstance(e, ast.UnaryOp):
        e = e.operand
    return isinstance(e, ast.Constant) and type(e.value) in (int, float, str, bytes) or (
        isinstance(e, ast.Call) and isinstance(e.func, ast.Name) and e.func.id == 'float' and len(e.args) == 1
        and isinstance(e.args[0], ast.Constant) and isinstance(e.args[0].value, str))


def looks_like_placeholder(n):
    if _is_ell(n):
        return True
    if isinstance(n, (ast.List, ast.Set)) and len(n.elts) == 1 and _is_ell(n.elts[0]):
        return True
    return isinstance(n, ast.Call) and len(n.args) == 1 and _is_ell(n.args[0]) and not n.keywords


def children(n, a, b):
    """(child node, lowest level, highest level, is_dict_key) for the sub-expressions of a container-like node at
    level band (a, b).  A list / dict / tuple literal passed as a positional argument of a call may or may not count as a
    container of its own (a hugged sole argument does not consume a level, an argument among several does)."""
    if isinstance(n, (ast.List, ast.Tuple, ast.Set)):
        return [(e, a + 1, b + 1, False) for e in n.elts]
    if isinstance(n, ast.Dict):
        out = []
        for k, v in zip(n.keys, n.values):
            out.append((k, a + 1, b + 1, True))
            out.append((v, a + 1, b + 1, False))
        return out
    if isinstance(n, ast.UnaryOp) and isinstance(n.operand, ast.Call):
        return children(n.operand, a, b)
    if isinstance(n, ast.BinOp):
        # an arithmetic expression standing for one scalar (timedelta days: 2 * 365 + 5): its operands sit where it sits
        return [(n.left, a, b, False), (n.right, a, b, False)]
    if isinstance(n, ast.Call):
        if len(n.args) == 1 and not n.keywords and _is_scalar(n.args[0]) and _scalar_wrapper(n.func):
            return []       # Sub(5), Sub('text'): a scalar in the wrapper of its subclass is a leaf, not a container
        out = []
        for e in n.args:
            if isinstance(e, (ast.List, ast.Dict, ast.Tuple)):
                out.append((e, a, b + 1, False))
            else:
                out.append((e, a + 1, b + 1, False))
        for kw in n.keywords:
            out.append((kw.value, a + 1, b + 1, False))
        return out
    return []


def ast_height(n, b=0):
    return max([b] + [ast_height(c, cb) for c, _, cb, _ in children(n, b, b)])


def walk_generic(full, cut, a, b, d, iskey=False):
    fd, cd = ast.dump(full), ast.dump(cut)
    if fd == cd and not children(full, a, b):
        if a >= d and not looks_like_placeholder(cut) and placeholder_for(full) is not None:
            # a leaf printed in full although every way of counting puts it at or below the cut
            if iskey and isinstance(full, ast.Constant) and type(full.value) in (str, bytes) and a <= d <= b + 1:
                return
            if (iskey and isinstance(full, ast.Call) and len(full.args) == 1 and isinstance(full.args[0], ast.Constant)
                    and type(full.args[0].value) in (str, bytes) and _scalar_wrapper(full.func) and a <= d <= b + 1):
                return              # a str / bytes subclass instance as a dict key: the same tolerance as for str keys
            if isinstance(full, (ast.List, ast.Tuple, ast.Set, ast.Dict)) or (isinstance(full, ast.Call) and not full.args and not full.keywords):
                return              # empty containers may print in full
            raise Bad('%s is inside at least %d containers (depth %d) but is printed in full' % (fd[:80], a, d))
        return
    ph = placeholder_for(full)
    if (cd != ph and fd != cd and isinstance(full, ast.Call) and isinstance(cut, ast.Call) and len(full.args) <= 1 and len(cut.args) == 1
            and not full.keywords and not cut.keywords and ast.dump(full.func) == ast.dump(cut.func)
            and isinstance(cut.args[0], (ast.List, ast.Set)) and looks_like_placeholder(cut.args[0])
            and (not full.args or (isinstance(full.args[0], (ast.List, ast.Tuple, ast.Dict, ast.Set))
                                   and ast.dump(cut.args[0]) == placeholder_for(full.args[0])))):
        # an instance of a subclass of a container beyond the cut prints as Sub([...]) / Sub({...}): the call of its
        # own type around the placeholder of the underlying literal
        if b >= d:
            return
        # (the ambiguous Sub([(...)]) - a one-element list holding the placeholder of a tuple - is judged structurally below)
        if not (full.args and isinstance(full.args[0], (ast.List, ast.Set)) and len(full.args[0].elts) == 1 and isinstance(full.args[0].elts[0], ast.Tuple)):
            raise Bad('%s is inside at most %d containers (depth %d) but was replaced by a placeholder' % (fd[:80], b, d))
    if cd == ph and fd != ph:
        if b >= d:
            return
        # [(...)] / f((...)) also read as a one-element list / call holding the placeholder of a tuple
        kids = children(full, a, b)
        if not (len(kids) == 1 and isinstance(kids[0][0], ast.Tuple) and type(full) is type(cut)):
            raise Bad('%s is inside at most %d containers (depth %d) but was replaced by a placeholder' % (fd[:80], b, d))
    elif looks_like_placeholder(cut) and fd != cd:
        raise Bad('placeholder of the wrong type: %s for %s' % (cd[:80], fd[:80]))
    if a >= d:
        if iskey and a <= d <= b + 1:
            pass
        elif not children(full, a, b) or isinstance(full, ast.BinOp):
            pass        # (an arithmetic expression is no container: its operands are judged one by one)
        else:
            raise Bad('%s is inside at least %d containers (depth %d) but is not a placeholder' % (fd[:80], a, d))
    if type(full) is not type(cut):
        raise Bad('node type differs: %s vs %s' % (fd[:80], cd[:80]))
    if isinstance(full, ast.Call):
        if ast.dump(full.func) != ast.dump(cut.func) or [k.arg for k in full.keywords] != [k.arg for k in cut.keywords]:
            raise Bad('call differs: %s vs %s' % (fd[:80], cd[:80]))
    fc, cc = children(full, a, b), children(cut, a, b)
    if len(fc) != len(cc):
        raise Bad('arity differs: %s vs %s' % (fd[:80], cd[:80]))
    if not fc and fd != cd:
        raise Bad('leaf differs: %s vs %s' % (fd[:80], cd[:80]))
    for (f, ca, cb, key), (c, _, _, _) in zip(fc, cc):
        walk_generic(f, c, ca, cb, d, key)


def oracle_generic(case):
    from .. import stdvals, vtypes
    from . import c17
    c17._install()      # dataclasses / attrs extras
    v = values.build(case['v'])
    d = case['d']
    w = case['width']
    sort = bool(case.get('sort'))       # the same key order with and without a depth limit
    base = values.pp(v, width=w, ribbon_width=w, sort_dict_keys=sort)
    if base.exc is not None or base.fallback_warnings():
        return core.viol('unlimited-print-failed', repr(base.exc or base.fallback_warnings()[0])[:300])
    p = values.pp(v, width=w, ribbon_width=w, depth=d, sort_dict_keys=sort)
    if p.exc is not None:
        return core.viol('pformat-raised', repr(p.exc))
    if p.fallback_warnings():
        return core.viol('printer-failed', p.fallback_warnings()[0][:300])
    try:
        full = ast.parse('(' + base.text + '\n)', mode='eval').body
        cut = ast.parse('(' + p.text + '\n)', mode='eval').body
    except SyntaxError as e:
        return core.viol('not-an-expression', '%r\n%s' % (e, p.text[:400]))
    h = ast_height(full)
    if d is None or d > h:
        if p.text != base.text:
            return core.viol('deep-limit-changes-output', 'depth=%r height<=%d\n%s\nvs\n%s' % (d, h, p.text[:300], base.text[:300]))
        return core.ok(False, ['generic', 'd>height' if d is not None else 'd=None'])
    try:
        walk_generic(full, cut, 0, 0, d)
    except Bad as e:
        return core.viol('wrong-cut', 'depth=%d: %s\n%s' % (d, e, p.text[:500]))
    return core.ok(1 <= d <= h, ['generic', 'generic-cut' if p.text != base.text else 'generic-uncut'])


def fixed_cases():
    inner = ['list', [['int', 1], ['list', [['int', 2], ['list', [['int', 3]]]]]]]
    for d in (0, 1, 2, 3, 4, 5, None):
        yield {'v': ['std', 'deque', [inner, ['int', 7]], 9], 'd': d, 'width': 79, 'generic': True}
        yield {'v': ['std', 'deque', [inner, ['int', 7]], None], 'd': d, 'width': 79, 'generic': True}
        yield {'v': ['std', 'odict', [[['str', 'k'], inner]]], 'd': d, 'width': 79, 'generic': True}
        yield {'v': ['std', 'ddict', 'list', [[['str', 'k'], inner]]], 'd': d, 'width': 79, 'generic': True}
        yield {'v': ['std', 'ntuple', 'Point', [inner, ['int', 5]]], 'd': d, 'width': 79, 'generic': True}
        yield {'v': ['call', 'box', [inner], []], 'd': d, 'width': 79, 'generic': True}
        # the sole positional argument of a call is an instance of a SUBCLASS of list / dict / tuple (it counts as a level)
        for sole in (['std', 'odict', [[['str', 'k'], inner]]], ['std', 'ddict', 'list', [[['str', 'k'], inner]]],
                     ['std', 'counter', [[['str', 'k'], 777]]], ['std', 'ntuple', 'Point', [inner, ['int', 5]]],
                     ['sub', 'list', 'plain', ['list', [inner, ['int', 6]]]], ['sub', 'dict', 'plain', ['dict', [[['str', 'k'], inner]]]],
                     ['sub', 'tuple', 'plain', ['tuple', [inner]]]):
            yield {'v': ['call', 'box', [sole], []], 'd': d, 'width': 79, 'generic': True}
            yield {'v': ['std', 'chainmap', [[[['str', 'm'], ['call', 'alt', [sole], []]]]]], 'd': d, 'width': 79, 'generic': True}
        # str keys out of order under sort_dict_keys; leaves printed as calls (timedelta, date, UUID) at and around the cut
        unsorted = ['dict', [[['str', 'x'], ['int', 1]], [['str', 'a'], ['list', [['int', 2]]]], [['str', 'm'], ['dict', [[['str', 'z'], ['int', 1]], [['str', 'b'], ['int', 2]]]]]]]
        yield {'v': unsorted, 'd': d, 'width': 79, 'generic': True, 'sort': True}
        yield {'v': ['list', [unsorted, ['call', 'box', [], [['a', unsorted]]]]], 'd': d, 'width': 79, 'generic': True, 'sort': True}
        stdleaves = [['std', 'timedelta', [5, 3, 0]], ['std', 'date', [2020, 1, 2]], ['std', 'uuid', '0' * 31 + '1'], ['std', 'time', [1, 2, 0, 0], None, 0]]
        yield {'v': ['list', stdleaves + [['list', stdleaves]]], 'd': d, 'width': 79, 'generic': True}
        yield {'v': ['dict', [[['str', 'k'], ['tuple', stdleaves[:2]]]]], 'd': d, 'width': 200, 'generic': True}
        scal = [['sub', 'int', 'plain', ['int', 5]], ['sub', 'int', 'enum', ['int', 1]], ['sub', 'float', 'plain', ['float', '2.5']], ['sub', 'str', 'plain', ['str', 'text']]]
        yield {'v': ['list', scal + [['list', scal + [['list', scal]]]]], 'd': d, 'width': 79, 'generic': True}
        yield {'v': ['dict', [[scal[0], ['tuple', [scal[1], ['call', 'box', [scal[2]], [['a', scal[3]]]]]]]]], 'd': d, 'width': 79, 'generic': True}
        yield {'v': ['sub', 'list', 'plain', ['list', [inner, ['sub', 'dict', 'repr', ['dict', [[['str', 'k'], inner]]]]]]], 'd': d, 'width': 79, 'generic': True}
        yield {'v': ['list', [['sub', 'tuple', 'plain', ['tuple', [inner]]], ['sub', 'frozenset', 'plain', ['fset', [['int', 1]]]], ['sub', 'set', 'plain', ['set', []]]]], 'd': d, 'width': 79, 'generic': True}
        yield {'v': ['call', 'alt', [inner, ['int', 4]], [['a', inner]]], 'd': d, 'width': 79, 'generic': True}
        yield {'v': ['dcinst', 'DInner', [inner, ['list', [inner, ['dcinst', 'AInner', [['int', 5], ['list', [inner]]]]]]]], 'd': d, 'width': 79, 'generic': True}
        yield {'v': ['list', [['dcinst', 'DFrozen', [['list', [['int', 1]]], ['dict', [[['str', 'k'], inner]]]]]]], 'd': d, 'width': 79, 'generic': True}
    for d in (0, 1, 2, 3, None):        # special floats are floats: full above the cut, float(...) below
        yield {'v': ['list', [['float', 'inf'], ['list', [['float', 'nan'], ['float', '1.5']]], ['dict', [[['float', '-inf'], ['int', 1]]]]]], 'd': d, 'width': 200}
    deep = ['dict', [[['str', 's1'], ['cmt', 'a comment long enough to go above the value', ['list', [['int', 1], ['list', [['int', 2], ['list', [['int', 3]]]]]]]]]]]
    for d in (0, 1, 2, 3, 4, 5, None):
        for w in (20, 200):
            yield {'v': deep, 'd': d, 'width': w}


def oracle(case):
    if case.get('generic'):
        return oracle_generic(case)
    v = values.build(case['v'])
    d = case['d']
    w = case['width']
    h = values.height(case['v'])
    base = values.pp(v, width=w, ribbon_width=w)
    if base.exc is not None or base.fallback_warnings():
        return core.viol('unlimited-print-failed', repr(base.exc or base.fallback_warnings()[0])[:300])
    p = values.pp(v, width=w, ribbon_width=w, depth=d)
    if p.exc is not None:
        return core.viol('pformat-raised', repr(p.exc))
    if p.fallback_warnings():
        return core.viol('printer-failed', p.fallback_warnings()[0][:300])
    labels = []
    if d is None or d > h:
        if p.text != base.text:
            return core.viol('deep-limit-changes-output', 'depth=%r height=%d\n%s\nvs\n%s' % (d, h, p.text[:300], base.text[:300]))
        return core.ok(False, ['d>height' if d is not None else 'd=None'])
    try:
        full = ast.parse('(' + base.text + '\n)', mode='eval').body
        cut = ast.parse('(' + p.text + '\n)', mode='eval').body
    except SyntaxError as e:
        return core.viol('not-an-expression', '%r\n%s' % (e, p.text[:400]))
    try:
        walk(v, full, cut, 0, d)
    except Bad as e:
        return core.viol('wrong-cut', 'depth=%d: %s\n%s' % (d, e, p.text[:500]))
    except (AttributeError, IndexError) as e:
        return core.viol('wrong-cut', 'depth=%d: unexpected node shape %r\n%s' % (d, e, p.text[:500]))
    return core.ok(1 <= d <= h, labels)
