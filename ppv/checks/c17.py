"""C17 - call-style printers show exactly the constructor call."""
import ast
import hashlib
import json

from .. import core, eqv, values, vtypes, gens

ID = 'C17'
LEVEL = 'exploration'
RULE = ('three families. (ctx) trees of user objects whose printers hand a flag down with PrettyContext.assoc (set twice in a row, cleared, nested): a leaf is masked iff it sits below a masking node - siblings, parents and later calls are unaffected. (call) pretty_call / pretty_call_alt invoked with: callable in {builtin function, builtin type, '
        'module-level function, C function of another module, built-in and Python classmethods, class, nested class, plain str name}, 0-4 positional value recipes (incl. the hugged sole '
        'list/dict/tuple, commented arguments, nested calls), 0-4 keyword arguments with names from a pool incl. fn, ctx, '
        'args, kwargs, self (pretty_call only with names a caller can pass), kwargs given as list of pairs / OrderedDict / '
        'dict / one-shot iterator / zip, x (width, indent). Oracle: the AST is Call; func dotted name == module.qualname (bare for builtins / the '
        'given string); positional count/order and keyword names in the given order; each argument sub-tree == AST of the '
        'argument printed alone; evaluation with a recording callable yields the given (args, kwargs) type-strictly. '
        '(class) generated dataclass / attrs definitions: 0-5 fields, names from the same pool, each with no default / '
        'default value / default factory (attrs: also takes_self, computed from an earlier field of the instance, with a sibling instance printed first; factories returning nested dataclass/attrs instances), the leading fields optionally declared in a base class, keyword-only flag per field / class-wide (a keyword-only field without default may follow defaulted ones), repr '
        'flag, frozen / slots variants, ClassVar / InitVar pseudo-fields (ClassVar possibly re-assigned after the class was created), '
        ' instance values (incl. nested dataclass/attrs instances, alone or inside lists and '
        'dicts) at or away from the default; sort_dict_keys on and off. Oracle: keyword names == those computed from the definition recipe (declaration order, '
        'repr enabled, no default or value != default); no fallback warning; when every hidden field is at its default, '
        'eval reconstructs an equal instance of the same class. Exhaustive: single-field definitions x every default kind '
        'x repr x value-at/away x lib x frozen/slots; random: Hypothesis. non-trivial: (call) >= 2 arguments of which >= 1 '
        'is a container or call; (class) >= 1 field omitted and >= 1 shown; distinct by case hash')
ASSUMPTIONS = ['"differs from the declared default" is Python != between the built default and the field value',
               'generated classes are reachable as ppv.dyn.<name>']
BUDGET = {'quick': {'random': 8000, 'shards': 16}, 'thorough': {'random': 300000, 'shards': 16}}

KW_POOL_ALT = ['a', 'b', 'key', 'fn', 'ctx', 'args', 'kwargs', 'self', 'value', 'é']
KW_POOL_CALL = ['a', 'b', 'key', 'args', 'kwargs', 'self', 'value', 'é']
FIELD_POOL = ['a', 'b', 'x', 'value', 'name', 'fn', 'ctx', 'args', 'kwargs', 'cls', '_p', '_q_']


def init_name(f, lib):
    """the constructor argument of a field: attrs strips leading underscores of private attributes (dataclasses do not)
    unless an explicit alias= says otherwise"""
    if lib == 'attrs' and f.get('alias'):
        return f['alias']
    return f['name'].lstrip('_') if lib == 'attrs' else f['name']

FACTORIES = {'list': list, 'dict': dict, 'int': int, 'seven': lambda: 7, 'text': lambda: 'dflt',
             'dinner': lambda: _dyn().DInner(), 'dfrozen1': lambda: _dyn().DFrozen(1), 'ainner': lambda: _dyn().AInner(),
             'dinner-list': lambda: [_dyn().DInner(1, [2])]}


def _dyn():
    from .. import dyn
    return dyn


_installed = []


def _install():
    if not _installed:
        import warnings
        from prettyprinter import install_extras
        with warnings.catch_warnings():
            warnings.simplefilter('ignore')
            install_extras(['dataclasses', 'attrs'], raise_on_error=True)
        _installed.append(True)


def deep_same(a, b, ordered=True):
    """ordered=False: plain dict *values* are compared without their key order (sort_dict_keys reorders them);
    keyword arguments of calls always keep the given order"""
    import dataclasses
    import attr
    if dataclasses.is_dataclass(a) and not isinstance(a, type):
        return type(a) is type(b) and all(deep_same(getattr(a, f.name), getattr(b, f.name), ordered) for f in dataclasses.fields(a))
    if attr.has(type(a)):
        return type(a) is type(b) and all(deep_same(getattr(a, f.name), getattr(b, f.name), ordered) for f in attr.fields(type(a)))
    if isinstance(a, vtypes.Box):
        return (type(a) is type(b) and len(a.args) == len(b.args) and all(deep_same(x, y, ordered) for x, y in zip(a.args, b.args))
                and list(a.kwargs) == list(b.kwargs) and all(deep_same(a.kwargs[k], b.kwargs[k], ordered) for k in a.kwargs))
    if type(a) is not type(b):
        return False
    if isinstance(a, (list, tuple)) and not hasattr(type(a), '_fields'):       # (same type: checked above; subclasses included)
        return len(a) == len(b) and all(deep_same(x, y, ordered) for x, y in zip(a, b))
    if isinstance(a, (set, frozenset)):
        if len(a) != len(b):
            return False
        rest = list(b)
        for x in a:
            for i, y in enumerate(rest):
                if deep_same(x, y, ordered):
                    del rest[i]
                    break
            else:
                return False
        return True
    if type(a) is dict or (isinstance(a, dict) and type(a).__module__ == 'ppv.vtypes'):
        if len(a) != len(b):
            return False
        if ordered:
            return all(deep_same(k1, k2, ordered) and deep_same(v1, v2, ordered) for (k1, v1), (k2, v2) in zip(a.items(), b.items()))
        rest = list(b.items())
        for k1, v1 in a.items():
            for i, (k2, v2) in enumerate(rest):
                if deep_same(k1, k2, ordered) and deep_same(v1, v2, ordered):
                    del rest[i]
                    break
            else:
                return False
        return True
    return eqv.same(a, b, 'keep' if ordered else 'sort')


def equal_instances(a, b):
    """"an equal instance" in the sense of ==, looked through containers and dataclass / attrs instances, with nan equal
    to nan (a field omitted because it equals its default comes back as the default: 0.0 as 0, True as 1)"""
    import dataclasses
    import attr
    if isinstance(a, float) and isinstance(b, float) and a != a and b != b:
        return True
    if dataclasses.is_dataclass(a) and not isinstance(a, type):
        return type(a) is type(b) and all(equal_instances(getattr(a, f.name), getattr(b, f.name)) for f in dataclasses.fields(a))
    if attr.has(type(a)):
        return type(a) is type(b) and all(equal_instances(getattr(a, f.name), getattr(b, f.name)) for f in attr.fields(type(a)))
    if isinstance(a, (list, tuple)) and type(a) is type(b):
        return len(a) == len(b) and all(equal_instances(x, y) for x, y in zip(a, b))
    if isinstance(a, dict) and type(a) is type(b):
        return len(a) == len(b) and all(k in b and equal_instances(v, b[k]) for k, v in a.items())
    try:
        return bool(a == b)
    except Exception:
        return False


# ---------------------------------------------------------------------------
# generation

def enumerate_cases(tier):
    vals = [['int', 0], ['int', 5], ['list', []], ['str', 'dflt'], ['dcinst', 'DInner', []], ['dcinst', 'DFrozen', [['int', 1]]],
            ['list', [['dcinst', 'DInner', [['int', 1], ['list', [['int', 2]]]]]]], ['dcinst', 'AInner', []]]
    defaults = [['none'], ['val', ['int', 0]], ['val', ['str', 'dflt']], ['val', ['float', 'nan']], ['fac', 'list'], ['fac', 'seven'], ['facself'],
                ['fac', 'dinner'], ['fac', 'dfrozen1'], ['fac', 'ainner'], ['fac', 'dinner-list']]
    for lib in ('dc', 'attrs'):
        for frozen in (False, True):
            for slots in (False, True):
                for name in ('a', 'fn', 'ctx'):
                    for d in defaults:
                        if d[0] == 'facself' and lib == 'dc':
                            continue
                        for rp in (True, False):
                            for v in vals + ['default']:
                                if v == 'default' and d[0] == 'none':
                                    continue
                                other = {'name': 'zz', 'default': ['val', ['int', 1]], 'repr': True, 'value': ['int', 2]}
                                yield {'kind': 'class', 'lib': lib, 'frozen': frozen, 'slots': slots,
                                       'fields': [{'name': name, 'default': d, 'repr': rp, 'value': v}, other],
                                       'width': 79, 'indent': 4}
    # call family: every callable x mode x small argument lists
    arglists = [[], [['list', [['int', 1], ['int', 2]]]], [['int', 1], ['cmt', 'note', ['str', 'two']]], [['dict', [[['str', 'k'], ['int', 1]]]], ['tuple', []]]]
    kwlists = [[], [['a', ['int', 1]]], [['b', ['list', [['int', 1]]]], ['a', ['none']]], [['kwargs', ['int', 1]], ['args', ['int', 2]], ['self', ['int', 3]]]]
    for fn in sorted(vtypes.CALLABLES):
        for mode in ('call', 'alt-list', 'alt-odict', 'alt-dict', 'alt-iter', 'alt-zip'):
            for a in arglists:
                for kw in kwlists:
                    for w in (10, 79):
                        yield {'kind': 'call', 'fn': fn, 'mode': mode, 'args': a, 'kwargs': kw, 'width': w, 'indent': 4, 'sort': w == 10}
    for kw in ([['fn', ['int', 1]], ['ctx', ['int', 2]]], [['ctx', ['list', []]]]):
        for mode in ('alt-list', 'alt-odict', 'alt-dict', 'alt-iter', 'alt-zip'):
            yield {'kind': 'call', 'fn': 'Box', 'mode': mode, 'args': [], 'kwargs': kw, 'width': 79, 'indent': 4}


def _ctx_cases():
    L = lambda n: ['leaf', n]
    trees = [['section', [['secret', [L(1)]], L(2)]], ['section', [L(0), ['secret', [['secret', [L(1)]], L(2)]], L(3)]],
             ['section', [['secret', [['reveal', [L(1)]], L(2)]], L(3), ['section', [L(4)]]]],
             ['secret', [['section', [L(1), ['reveal', [L(2), ['secret', [L(3)]], L(4)]], L(5)]]]],
             ['section', [['section', [['secret', [L(1)]]]], ['section', [L(2)]], ['reveal', [L(3)]]]]]
    for t in trees:
        for w in (79, 10):
            yield {'kind': 'ctx', 'tree': t, 'width': w}


def fixed_cases():
    yield from _ctx_cases()
    # attrs attributes with an explicit alias= (also one that keeps a leading underscore)
    yield {'kind': 'class', 'lib': 'attrs', 'frozen': False, 'slots': False, 'width': 79, 'indent': 4,
           'fields': [{'name': '_p', 'default': ['none'], 'repr': True, 'value': ['int', 1], 'alias': 'ident'},
                      {'name': 'x', 'default': ['val', ['int', 3]], 'repr': True, 'value': ['int', 4], 'alias': '_raw'},
                      {'name': 'b', 'default': ['val', ['int', 0]], 'repr': True, 'value': ['int', 9], 'alias': 'size'}]}
    for lib in ('dc', 'attrs'):
        # private attribute names: attrs takes them in the constructor without the leading underscore
        yield {'kind': 'class', 'lib': lib, 'frozen': False, 'slots': False, 'width': 79, 'indent': 4,
               'fields': [{'name': '_p', 'default': ['none'], 'repr': True, 'value': ['int', 1]},
                          {'name': '_q_', 'default': ['val', ['int', 3]], 'repr': True, 'value': ['int', 4]},
                          {'name': 'x', 'default': ['val', ['int', 0]], 'repr': True, 'value': 'default'}]}
    for pseudo in ([['classvar', 'count', ['int', 0], ['int', 2]]], [['classvar', 'cv', ['str', 'x'], None]], [['initvar', 'iv', ['int', 1], None]],
                   [['classvar', 'registry', ['none'], ['str', 'changed']], ['initvar', 'iv', ['int', 0], None]]):
        for slots in (False, True):
            yield {'kind': 'class', 'lib': 'dc', 'frozen': False, 'slots': slots, 'width': 79, 'indent': 4, 'pseudo': pseudo,
                   'fields': [{'name': 'a', 'default': ['none'], 'repr': True, 'value': ['int', 1]},
                              {'name': 'b', 'default': ['val', ['int', 3]], 'repr': True, 'value': 'default'}]}
    for lib in ('dc', 'attrs'):
        for kwc in (False, True):
            for v1 in ('default', ['int', 5]):
                for v3 in ('default', ['int', 9]):
                    # a keyword-only field without default declared after a defaulted field
                    yield {'kind': 'class', 'lib': lib, 'frozen': False, 'slots': False, 'width': 79, 'indent': 4, 'kw_only': kwc,
                           'fields': [{'name': 'retries', 'default': ['val', ['int', 3]], 'repr': True, 'value': v1, 'kw': False},
                                      {'name': 'name', 'default': ['none'], 'repr': True, 'value': ['str', 'x'], 'kw': True},
                                      {'name': 'x', 'default': ['fac', 'seven'], 'repr': True, 'value': v3, 'kw': True}]}
    for lib in ('dc', 'attrs'):
        for inh in (1, 2):
            for v in ('default', ['int', 9]):
                # fields declared in a base class come first (attrs: also with an attribute that is not set by the constructor)
                if lib == 'attrs':
                    yield {'kind': 'class', 'lib': lib, 'frozen': False, 'slots': inh == 2, 'width': 79, 'indent': 4, 'unset_attr': True,
                           'fields': [{'name': 'a', 'default': ['none'], 'repr': True, 'value': ['int', 1]},
                                      {'name': 'b', 'default': ['val', ['int', 3]], 'repr': True, 'value': v},
                                      {'name': 'x', 'default': ['fac', 'list'], 'repr': True, 'value': 'default'}]}
                yield {'kind': 'class', 'lib': lib, 'frozen': False, 'slots': False, 'width': 79, 'indent': 4, 'inherit': inh,
                       'fields': [{'name': 'a', 'default': ['none'], 'repr': True, 'value': ['int', 1]},
                                  {'name': 'b', 'default': ['val', ['int', 3]], 'repr': True, 'value': v},
                                  {'name': 'x', 'default': ['fac', 'list'], 'repr': True, 'value': 'default'},
                                  {'name': 'name', 'default': ['val', ['str', 'n']], 'repr': False, 'value': ['str', 'other']}]}
    for v1 in (['int', 1], ['int', 10], ['list', [['int', 1]]]):
        for v2 in ('default', ['int', 2], ['tuple', [['int', 10], ['int', 1]]]):
            yield {'kind': 'class', 'lib': 'attrs', 'frozen': False, 'slots': False, 'width': 79, 'indent': 4,
                   'fields': [{'name': 'start', 'default': ['none'], 'repr': True, 'value': v1},
                              {'name': 'stop', 'default': ['facself'], 'repr': True, 'value': v2}]}
    yield {'kind': 'class', 'lib': 'dc', 'frozen': False, 'slots': False, 'width': 79, 'indent': 4,      # D15
           'fields': [{'name': 'fn', 'default': ['none'], 'repr': True, 'value': ['int', 1]},
                      {'name': 'ctx', 'default': ['none'], 'repr': True, 'value': ['int', 2]},
                      {'name': 'x', 'default': ['val', ['int', 3]], 'repr': True, 'value': 'default'}]}


def strategy(tier):
    S = values.strategies()
    st = S['st']
    arg = st.one_of(S['value'], S['value'], gens.call_strategy(S, arg=S['leaf']),
                    st.tuples(gens.comment_text(S), S['value']).map(lambda p: ['cmt', p[0], p[1]]))

    def kwargs_for(pool):
        return gens.named_values(st, pool, arg, 4)
    call_alt = st.fixed_dictionaries({
        'kind': st.just('call'), 'fn': st.sampled_from(sorted(vtypes.CALLABLES)),
        'mode': st.sampled_from(['alt-list', 'alt-odict', 'alt-dict', 'alt-iter', 'alt-zip']),
        'args': st.lists(arg, max_size=4), 'kwargs': kwargs_for(KW_POOL_ALT),
        'width': st.one_of(st.integers(1, 100), st.just(79)), 'indent': st.sampled_from([1, 2, 4, 8]), 'sort': st.booleans()})
    call_plain = st.fixed_dictionaries({
        'kind': st.just('call'), 'fn': st.sampled_from(sorted(vtypes.CALLABLES)), 'mode': st.just('call'),
        'args': st.lists(arg, max_size=4), 'kwargs': kwargs_for(KW_POOL_CALL),
        'width': st.one_of(st.integers(1, 100), st.just(79)), 'indent': st.sampled_from([1, 2, 4, 8]), 'sort': st.booleans()})
    inner = st.one_of(
        st.tuples(S['leaf'], st.lists(S['leaf'], max_size=2).map(lambda xs: ['list', xs])).map(lambda p: ['dcinst', 'DInner', [p[0], p[1]]]),
        st.just(['dcinst', 'DInner', []]), st.just(['dcinst', 'DFrozen', [['int', 1]]]), st.just(['dcinst', 'AInner', []]),
        st.tuples(S['leaf'], S['leaf']).map(lambda p: ['dcinst', 'DFrozen', [p[0], p[1]]]),
        S['leaf'].map(lambda x: ['dcinst', 'AInner', [x]]),
    )
    small = st.one_of(S['leaf'], st.recursive(S['leaf'], S['value_ext'], max_leaves=4), inner,
                      st.lists(inner, max_size=2).map(lambda xs: ['list', xs]),
                      st.tuples(S['r_str'], inner).map(lambda p: ['dict', [[p[0], p[1]]]]))
    default = st.one_of(st.just(['none']), small.map(lambda r: ['val', r]),
                        st.sampled_from(sorted(FACTORIES)).map(lambda k: ['fac', k]), st.just(['facself']))
    field = st.fixed_dictionaries({
        'name': st.sampled_from(FIELD_POOL), 'default': default, 'repr': st.sampled_from([True, True, True, False]),
        'value': st.one_of(st.just('default'), st.just('default'), small), 'kw': st.sampled_from([False, False, True]),
        'alias': st.sampled_from([None, None, None, 'al1', '_raw', 'ident'])})
    scalar = st.one_of(S['r_int'], S['r_str'], S['r_const'])
    pseudo = st.lists(st.tuples(st.sampled_from(['classvar', 'classvar', 'initvar']), st.sampled_from(['registry', 'count', 'cv', 'iv']),
                                scalar, st.one_of(st.none(), scalar)).map(list), max_size=2, unique_by=lambda p: p[1])
    cls = st.fixed_dictionaries({
        'kind': st.just('class'), 'lib': st.sampled_from(['dc', 'attrs']), 'frozen': st.booleans(), 'slots': st.booleans(),
        'fields': st.lists(st.sampled_from(FIELD_POOL), max_size=5, unique=True).flatmap(
            lambda ns: st.tuples(*[field.map(lambda f, n=n: dict(f, name=n)) for n in ns]).map(list)), 'pseudo': pseudo, 'kw_only': st.sampled_from([False, False, False, True]),
        'inherit': st.sampled_from([0, 0, 1, 2]), 'unset_attr': st.sampled_from([False, False, True]),
        'width': st.one_of(st.integers(1, 100), st.just(79)), 'indent': st.sampled_from([2, 4]), 'sort': st.booleans()})
    ctx_tree = st.recursive(st.integers(0, 9).map(lambda n: ['leaf', n]),
                            lambda ch: st.tuples(st.sampled_from(['section', 'section', 'secret', 'reveal']), st.lists(ch, min_size=1, max_size=3)).map(list),
                            max_leaves=8)
    ctxcase = st.fixed_dictionaries({'kind': st.just('ctx'), 'tree': ctx_tree.filter(lambda r: r[0] != 'leaf'), 'width': st.sampled_from([79, 20, 5])})
    return st.one_of(call_alt, call_plain, cls, cls, ctxcase)


# ---------------------------------------------------------------------------
# (a) call family

def _dotted(node):
    parts = []
    while isinstance(node, ast.Attribute):
        parts.append(node.attr)
        node = node.value
    if isinstance(node, ast.Name):
        parts.append(node.id)
        return '.'.join(reversed(parts))
    return None


def _dump_alone(value, cfg):
    p = values.pp(value, **cfg)
    if p.exc is not None or p.text is None:
        return None
    try:
        return ast.dump(ast.parse('(' + p.text + '\n)', mode='eval').body)
    except SyntaxError:
        return None


def oracle_call(case):
    fn = vtypes.CALLABLES[case['fn']]
    args = tuple(values.build(a) for a in case['args'])
    kwargs = [(k, values.build(v)) for k, v in case['kwargs']]
    spec = vtypes.CallSpec(fn, args, kwargs, case['mode'])
    cfg = {'width': case['width'], 'ribbon_width': case['width'], 'indent': case['indent'], 'sort_dict_keys': bool(case.get('sort'))}
    p = values.pp(spec, **cfg)
    labels = ['call', case['mode']]
    if p.exc is not None:
        return core.viol('pformat-raised', repr(p.exc), labels)
    if p.fallback_warnings():
        return core.viol('printer-failed', p.fallback_warnings()[0][:500], labels)
    try:
        node = ast.parse('(' + p.text + '\n)', mode='eval').body
    except SyntaxError as e:
        return core.viol('not-an-expression', '%r\n%s' % (e, p.text[:500]), labels)
    if not isinstance(node, ast.Call):
        return core.viol('not-a-call', p.text[:300], labels)
    want_name = vtypes.CALLABLE_NAMES[case['fn']]
    if _dotted(node.func) != want_name:
        return core.viol('wrong-callee', '%s != %s' % (_dotted(node.func), want_name), labels)
    if len(node.args) != len(args) or any(isinstance(a, ast.Starred) for a in node.args):
        return core.viol('positional-count', '%d printed, %d given\n%s' % (len(node.args), len(args), p.text[:400]), labels)
    knames = [k.arg for k in node.keywords]
    if knames != [k for k, _ in kwargs]:
        return core.viol('keyword-order', 'printed %r, given %r' % (knames, [k for k, _ in kwargs]), labels)
    from prettyprinter.prettyprinter import unwrap_comments
    for i, (given, sub) in enumerate(list(zip(args, node.args)) + [(v, k.value) for (_, v), k in zip(kwargs, node.keywords)]):
        alone = _dump_alone(unwrap_comments(given)[0], cfg)
        if alone is None:
            continue
        if ast.dump(sub) != alone:
            return core.viol('argument-differs', 'argument %d printed as %s, alone as %s' % (i, ast.dump(sub)[:200], alone[:200]), labels)
    # evaluation with a recording callable
    rec = []
    node.func = ast.Name(id='__REC__', ctx=ast.Load())
    env = dict(vtypes.env())
    env['__REC__'] = lambda *a, **k: rec.append((a, k))
    try:
        eval(compile(ast.fix_missing_locations(ast.Expression(node)), '<call>', 'eval'), env)
    except Exception as e:
        return core.viol('not-evaluable', '%r\n%s' % (e, p.text[:500]), labels)
    a_got, k_got = rec[0]
    plain_args = [unwrap_comments(a)[0] for a in args]
    plain_kwargs = [(k, unwrap_comments(v)[0]) for k, v in kwargs]
    ordered = not case.get('sort')
    if not (len(a_got) == len(plain_args) and all(deep_same(x, y, ordered) for x, y in zip(plain_args, a_got))):
        return core.viol('call-args-differ', 'given %r evaluated %r' % (plain_args, a_got), labels)
    if list(k_got) != [k for k, _ in plain_kwargs] or not all(deep_same(v, k_got[k], ordered) for k, v in plain_kwargs):
        return core.viol('call-kwargs-differ', 'given %r evaluated %r' % (plain_kwargs, k_got), labels)
    n = len(args) + len(kwargs)
    rich = any(values.has_container(r) or r[0] == 'call' for r in case['args'] + [v for _, v in case['kwargs']])
    if len(args) == 1 and not kwargs and type(plain_args[0]) in (list, dict, tuple):
        labels.append('hugged')
    return core.ok(n >= 2 and rich, labels)


# ---------------------------------------------------------------------------
# (b) class family

def _order_fields(fields, kw_class=False):
    """declaration order of the generated class: positional fields without default must come first; keyword-only fields
    (per field or class-wide) may stand anywhere, also without default after defaulted ones"""
    if kw_class:
        return list(fields)
    return sorted(fields, key=lambda f: 0 if (f['default'][0] == 'none' and not f.get('kw')) else 1)


def _self_ref(fields, f):
    """the earlier field a takes_self default is computed from (None: constant default)"""
    i = fields.index(f)
    return fields[0]['name'] if i > 0 else None


def make_class(case):
    """-> (cls, ordered field recipes); classes are cached by definition hash"""
    from .. import dyn
    kw_class = bool(case.get('kw_only'))
    fields = _order_fields(case['fields'], kw_class)
    pseudo = case.get('pseudo') or []      # dataclasses only: [kind 'classvar'|'initvar', name, default recipe, changed-to recipe or None]
    inherit = int(case.get('inherit') or 0)        # the first `inherit` fields are declared in a base class
    inherit = inherit if 0 < inherit < len(fields) else 0
    key = json.dumps([case['lib'], case['frozen'], case['slots'], [[f['name'], f['default'], f['repr'], bool(f.get('kw')), f.get('alias') if case['lib'] == 'attrs' else None] for f in fields], pseudo, kw_class, inherit,
                      bool(case.get('unset_attr')) and case['lib'] == 'attrs'], sort_keys=True)
    name = 'K' + hashlib.blake2b(key.encode(), digest_size=6).hexdigest()
    cls = getattr(dyn, name, None)
    if cls is not None:
        return cls, fields
    built_defaults = {}
    if case['lib'] == 'dc':
        import dataclasses
        specs = []
        for f in fields:
            d = f['default']
            kw = {'kw_only': True} if f.get('kw') else {}
            if d[0] == 'none':
                fld = dataclasses.field(repr=f['repr'], **kw)
            elif d[0] == 'val':
                dv = values.build(d[1])
                built_defaults[f['name']] = dv
                if isinstance(dv, (list, dict, set)):
                    fld = dataclasses.field(default_factory=(lambda dv=dv: type(dv)(dv)), repr=f['repr'], **kw)
                else:
                    fld = dataclasses.field(default=dv, repr=f['repr'], **kw)
            elif d[0] == 'fac':
                fld = dataclasses.field(default_factory=FACTORIES[d[1]], repr=f['repr'], **kw)
            else:   # facself does not exist for dataclasses: plain factory
                fld = dataclasses.field(default_factory=FACTORIES['seven'], repr=f['repr'], **kw)
            specs.append((f['name'], object, fld))
        import typing
        used = {f['name'] for f in fields}
        changed = []
        for kind, pname, dflt, chg in pseudo:
            if pname in used:
                continue
            used.add(pname)
            if kind == 'classvar':
                specs.append((pname, typing.ClassVar[object], dataclasses.field(default=values.build(dflt))))
                if chg is not None:
                    changed.append((pname, values.build(chg)))
            else:
                specs.append((pname, dataclasses.InitVar[object], dataclasses.field(default=values.build(dflt))))
        if inherit:
            base = dataclasses.make_dataclass(name + 'Base', specs[:inherit], frozen=case['frozen'], slots=case['slots'], kw_only=kw_class)
            base.__module__ = 'ppv.dyn'
            cls = dataclasses.make_dataclass(name, specs[inherit:], bases=(base,), frozen=case['frozen'], slots=case['slots'], kw_only=kw_class)
        else:
            cls = dataclasses.make_dataclass(name, specs, frozen=case['frozen'], slots=case['slots'], kw_only=kw_class)
        for pname, val in changed:
            setattr(cls, pname, val)      # e.g. an instance counter or registry bumped after the class was defined
    else:
        import attr
        attrs = {}
        for f in fields:
            d = f['default']
            kw = {'kw_only': True} if f.get('kw') else {}
            if f.get('alias'):
                kw['alias'] = f['alias']
            if d[0] == 'none':
                attrs[f['name']] = attr.ib(repr=f['repr'], **kw)
            elif d[0] == 'val':
                dv = values.build(d[1])
                built_defaults[f['name']] = dv
                if isinstance(dv, (list, dict, set)):
                    attrs[f['name']] = attr.ib(factory=(lambda dv=dv: type(dv)(dv)), repr=f['repr'], **kw)
                else:
                    attrs[f['name']] = attr.ib(default=dv, repr=f['repr'], **kw)
            elif d[0] == 'fac':
                attrs[f['name']] = attr.ib(factory=FACTORIES[d[1]], repr=f['repr'], **kw)
            else:
                # computed from the instance: a pair holding the value of the first field (a constant when this is the first)
                ref = _self_ref(fields, f)
                fac = (lambda self, ref=ref: (getattr(self, ref), 1)) if ref else (lambda self: 7)
                attrs[f['name']] = attr.ib(default=attr.Factory(fac, takes_self=True), repr=f['repr'], **kw)
        if case.get('unset_attr') and 'lazy_' not in attrs:
            # computed later, not part of the constructor call: init=False, repr=False, no default, never assigned
            attrs['lazy_'] = attr.ib(init=False, repr=False)
        if inherit:
            names = list(attrs)
            base = attr.make_class(name + 'Base', {n: attrs[n] for n in names[:inherit]}, frozen=case['frozen'], slots=case['slots'], kw_only=kw_class)
            base.__module__ = 'ppv.dyn'
            cls = attr.make_class(name, {n: attrs[n] for n in names[inherit:]}, bases=(base,), frozen=case['frozen'], slots=case['slots'], kw_only=kw_class)
        else:
            cls = attr.make_class(name, attrs, frozen=case['frozen'], slots=case['slots'], kw_only=kw_class)
    cls.__module__ = 'ppv.dyn'
    cls.__qualname__ = name
    cls._ppv_defaults = built_defaults
    setattr(dyn, name, cls)
    return cls, fields


def default_value(f, lib, cls=None, inst=None, fields=None):
    d = f['default']
    if d[0] == 'facself' and lib == 'attrs' and inst is not None:
        ref = _self_ref(fields, f)
        return (getattr(inst, ref), 1) if ref else 7
    if d[0] == 'val':
        # the very object the class holds (identity matters: nan, and containers sharing their elements)
        dv = cls._ppv_defaults[f['name']] if cls is not None else values.build(d[1])
        return type(dv)(dv) if isinstance(dv, (list, dict, set)) else dv
    if d[0] == 'fac':
        return FACTORIES[d[1]]()
    return 7


def oracle_class(case):
    _install()
    try:
        cls, fields = make_class(case)
    except Exception as e:      # dataclasses / attrs refuse the definition (argument order, duplicate constructor names, ...)
        return core.skip('definition-rejected')
    kwargs = {}
    expected = []
    hidden_off_default = False
    for f in fields:
        has_default = f['default'][0] != 'none'
        if f['value'] == 'default':
            if not has_default:
                kwargs[f['name']] = None
        else:
            kwargs[f['name']] = values.build(f['value'])
    try:
        inst = cls(**{init_name(f, case['lib']): kwargs[f['name']] for f in fields if f['name'] in kwargs})
    except Exception:
        return core.skip('instance-rejected')
    for f in fields:
        has_default = f['default'][0] != 'none'
        if f['name'] in kwargs:
            val = kwargs[f['name']]
        else:
            val = default_value(f, case['lib'], cls, inst, fields)
        differs = (not has_default) or bool(default_value(f, case['lib'], cls, inst, fields) != val)
        if f['repr'] and differs:
            expected.append(init_name(f, case['lib']))
        elif differs:
            hidden_off_default = True
    cfg = {'width': case['width'], 'ribbon_width': case['width'], 'indent': case['indent'], 'sort_dict_keys': bool(case.get('sort'))}
    base = cls.__mro__[1]
    if base is not object and base.__module__ == 'ppv.dyn':
        # the base class (leading fields) is printed first: nothing it leaves behind may change how the derived class prints
        import dataclasses as _dcs
        import attr as _attr
        try:
            names = [f.name for f in _dcs.fields(base)] if _dcs.is_dataclass(base) else [a.name for a in _attr.fields(base)]
            values.pp(base(**{init_name(f, case['lib']): kwargs[f['name']] for f in fields if f['name'] in kwargs and f['name'] in names}), **cfg)
        except Exception:
            pass
    if case['lib'] == 'attrs' and len(fields) > 1 and any(f['default'][0] == 'facself' for f in fields[1:]):
        # another instance of the same class whose computed defaults differ is printed first
        try:
            sk = dict(kwargs, **{fields[0]['name']: 'ppv-sibling'})
            sibling = cls(**{init_name(f, case['lib']): sk[f['name']] for f in fields if f['name'] in sk})
            values.pp(sibling, **cfg)
        except Exception:
            pass
    p = values.pp(inst, **cfg)
    labels = ['class', case['lib']]
    if p.exc is not None:
        return core.viol('pformat-raised', repr(p.exc), labels)
    if p.fallback_warnings():
        return core.viol('printer-failed', p.fallback_warnings()[0][:600], labels)
    try:
        node = ast.parse('(' + p.text + '\n)', mode='eval').body
    except SyntaxError as e:
        return core.viol('not-an-expression', '%r\n%s' % (e, p.text[:400]), labels)
    if not isinstance(node, ast.Call) or _dotted(node.func) != 'ppv.dyn.' + cls.__qualname__:
        return core.viol('not-the-constructor-call', p.text[:300], labels)
    got = [k.arg for k in node.keywords]
    if node.args or got != expected:
        return core.viol('field-selection', 'printed %r, definition says %r\n%s' % (got, expected, p.text[:400]), labels)
    if not hidden_off_default:
        try:
            back = values.evaluate(p.text, vtypes.env())
        except Exception as e:
            return core.viol('not-evaluable', '%r\n%s' % (e, p.text[:400]), labels)
        if type(back) is not cls:
            return core.viol('class-differs', repr(type(back)), labels)
        for f in fields:
            a, b = getattr(inst, f['name']), getattr(back, f['name'])
            if not (deep_same(a, b, not case.get('sort')) or a == b or equal_instances(a, b)):
                return core.viol('field-differs', '%s: %r vs %r' % (f['name'], a, b), labels)
    omitted = len(fields) - len(expected)
    return core.ok(omitted >= 1 and len(expected) >= 1, labels)


# ---------------------------------------------------------------------------
# (c) user context handed down by printers

def _build_ctx(r):
    return vtypes.CtxNode(r[0], [_build_ctx(c) for c in r[1]] if r[0] != 'leaf' else (), r[1] if r[0] == 'leaf' else 0)


def _expected_ctx(r, mask):
    if r[0] == 'leaf':
        return "'***'" if mask else str(r[1])
    if r[0] == 'secret':
        mask = True
    elif r[0] == 'reveal':
        mask = False
    return '%s(%s)' % (r[0], ', '.join(_expected_ctx(c, mask) for c in r[1]))


def oracle_ctx(case):
    # what a printer stores with ctx.assoc() reaches the values printed below it and nothing else: not its siblings,
    # not its parent, not a later call
    v = _build_ctx(case['tree'])
    want = ast.dump(ast.parse(_expected_ctx(case['tree'], False), mode='eval'))
    for rnd in (0, 1):
        p = values.pp(v, width=case['width'], ribbon_width=case['width'], indent=4)
        if p.exc is not None:
            return core.viol('pformat-raised', repr(p.exc), ['ctx'])
        if p.fallback_warnings():
            return core.viol('printer-failed', p.fallback_warnings()[0][:400], ['ctx'])
        try:
            got = ast.dump(ast.parse('(' + p.text + '\n)', mode='eval'))
        except SyntaxError as e:
            return core.viol('not-an-expression', '%r\n%s' % (e, p.text[:400]), ['ctx'])
        if got != want:
            return core.viol('user-context-leaks', 'print %d: expected %s\ngot\n%s' % (rnd + 1, _expected_ctx(case['tree'], False), p.text[:600]), ['ctx'])
    kinds = core.canonical(case['tree'])
    return core.ok('"secret"' in kinds and '"leaf"' in kinds, ['ctx'])


def oracle(case):
    if case['kind'] == 'call':
        return oracle_call(case)
    if case['kind'] == 'ctx':
        return oracle_ctx(case)
    return oracle_class(case)
