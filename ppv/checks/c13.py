"""C13 - cycles are cut exactly at back-references; shared substructure prints in full."""
import ast
import itertools
import re

from .. import core, values

ID = 'C13'
LEVEL = 'exploration'
RULE = ('case = rooted directed graph of container nodes (list, dict, tuple-holding-a-list, user objects holding a list whose printer is registered for the class or through a predicate, user objects whose children are the arguments of the call - a sole container child is the hugged sole argument) with ordered out-edges to '
        'nodes or int leaves, edges added after creation (so self-loops, 2- and 3-cycles through mixed kinds and diamonds '
        'exist), optionally with comment() on some edges (a commented value is not a node), plus a second root; history = print g, print g, print an unrelated value, print the graph from the second '
        'root, print g, print g with a printer returning a non-document inside every node (the call raises while the '
        'containers are open), print g. Exhaustive: all graphs with <= 2 nodes (out-degree <= 2, leaf targets) and all 3-node graphs with '
        'out-degree <= 2; random: up to 8 nodes, out-degree <= 3. Oracle: a reference DFS with an explicit path stack '
        'builds the expected tree (child on the current path -> marker(type name, id); anything else expanded in full); '
        'the output with "<Recursion on T with id=N>" rewritten to a call must parse to exactly that tree; all prints of '
        'the same graph are identical; the first print of each root runs under a budget of 400000 executed package lines. non-trivial = >= 1 back-edge and >= 1 node expanded in full more than once; '
        'distinct by case hash')
ASSUMPTIONS = ['id() of live objects is the identity the marker must name', 'RecursionError on these small graphs counts as non-termination']
BUDGET = {'quick': {'random': 6000, 'shards': 16}, 'thorough': {'random': 300000, 'shards': 16}}

KINDS = ['list', 'dict', 'tuple']
OBJ_KINDS = ['cobj', 'pobj', 'wobj']   # user objects holding a list: printer registered for the class / through a predicate;
                                       # wobj passes its children themselves as the arguments of the call (a sole child that
                                       # is a list / dict / tuple node is the hugged sole argument of a call)


class CNode:
    def __init__(self):
        self.items = []


class PNode:
    def __init__(self):
        self.items = []


class WNode:
    def __init__(self):
        self.items = []


_registered = []


def _register():
    if not _registered:
        from prettyprinter import register_pretty, pretty_call
        register_pretty(CNode)(lambda v, ctx: pretty_call(ctx, 'CNode', v.items))
        register_pretty(predicate=lambda v: isinstance(v, PNode))(lambda v, ctx: pretty_call(ctx, 'PNode', v.items))
        register_pretty(WNode)(lambda v, ctx: pretty_call(ctx, 'WNode', *v.items))
        _registered.append(True)
STEP_CAP = 400000
MARK = re.compile(r'<Recursion on (\w+) with id=(\d+)>')


def build_graph(case):
    kinds = case['kinds']
    objs = []
    sinks = []   # where children are added
    _register()
    for k in kinds:
        if k in OBJ_KINDS:
            o = {'cobj': CNode, 'pobj': PNode, 'wobj': WNode}[k]()
            objs.append(o)
            sinks.append(o.items)
        elif k == 'list':
            o = []
            objs.append(o)
            sinks.append(o)
        elif k == 'dict':
            o = {}
            objs.append(o)
            sinks.append(o)
        else:
            inner = []
            objs.append((inner,))
            sinks.append(inner)
    commented = set(tuple(e) for e in case.get('commented', ()))
    for src, outs in enumerate(case['edges']):
        for j, dst in enumerate(outs):
            child = objs[dst] if dst >= 0 else -dst
            if (src, j) in commented:
                from prettyprinter import comment
                child = comment(child, 'edge %d.%d with a comment long enough to be put above the value' % (src, j))
            s = sinks[src]
            if isinstance(s, dict):
                s['k%d' % j] = child
            else:
                s.append(child)
    return objs


def expected(obj, path, stats):
    """reference DFS -> nested tuple structure"""
    while type(obj).__name__ in ('_CommentedValue', '_TrailingCommentedValue'):
        obj = obj.value          # comment wrappers are not nodes
    if isinstance(obj, int):
        return ('int', obj)
    if id(obj) in path:
        stats['markers'] += 1
        return ('marker', type(obj).__name__, id(obj))
    stats['expanded'][id(obj)] = stats['expanded'].get(id(obj), 0) + 1
    path.add(id(obj))
    try:
        if isinstance(obj, list):
            return ('list', tuple(expected(x, path, stats) for x in obj))
        if isinstance(obj, tuple):
            return ('tuple', tuple(expected(x, path, stats) for x in obj))
        if isinstance(obj, dict):
            return ('dict', tuple((('str', k), expected(x, path, stats)) for k, x in obj.items()))
        if isinstance(obj, (CNode, PNode)):
            return ('call', type(obj).__name__, (expected(obj.items, path, stats),))
        if isinstance(obj, WNode):
            return ('call', 'WNode', tuple(expected(x, path, stats) for x in obj.items))
    finally:
        path.discard(id(obj))
    raise TypeError(obj)


def from_ast(node):
    if isinstance(node, ast.Constant):
        if isinstance(node.value, int):
            return ('int', node.value)
        if isinstance(node.value, str):
            return ('str', node.value)
    if isinstance(node, ast.List):
        return ('list', tuple(from_ast(x) for x in node.elts))
    if isinstance(node, ast.Tuple):
        return ('tuple', tuple(from_ast(x) for x in node.elts))
    if isinstance(node, ast.Dict):
        return ('dict', tuple((from_ast(k), from_ast(v)) for k, v in zip(node.keys, node.values)))
    if isinstance(node, ast.Call) and isinstance(node.func, ast.Name) and node.func.id == '__REC__':
        return ('marker', node.args[0].value, node.args[1].value)
    if isinstance(node, ast.Call) and isinstance(node.func, ast.Name) and node.func.id in ('CNode', 'PNode', 'WNode') and not node.keywords:
        return ('call', node.func.id, tuple(from_ast(x) for x in node.args))
    return ('unknown', ast.dump(node)[:80])


def parse_output(text):
    src = MARK.sub(lambda m: '__REC__("%s", %s)' % (m.group(1), m.group(2)), text)
    return from_ast(ast.parse('(' + src + '\n)', mode='eval').body)


def _edge_options(n, maxdeg, leaf):
    targets = list(range(n)) + ([-7] if leaf else [])
    opts = [[]]
    for d in range(1, maxdeg + 1):
        opts.extend([list(t) for t in itertools.product(targets, repeat=d)])
    return opts


def enumerate_cases(tier):
    for n, leaf in ((1, True), (2, True), (3, False)):
        eo = _edge_options(n, 2, leaf)
        for kinds in itertools.product(KINDS + OBJ_KINDS if n <= 2 else KINDS, repeat=n):
            if n == 3 and tier == 'quick' and kinds[0] != min(kinds):
                # quick: rotate-equivalent kind assignments are thinned out
                continue
            for edges in itertools.product(eo, repeat=n):
                yield {'kinds': list(kinds), 'edges': [list(e) for e in edges], 'root': 0, 'root2': n - 1}


def fixed_cases():
    yield {'kinds': ['dict'], 'edges': [[0]], 'root': 0, 'root2': 0}                       # test_recursive
    yield {'kinds': ['list', 'list'], 'edges': [[1, 1], [-3]], 'root': 0, 'root2': 1}       # pure sharing
    yield {'kinds': ['list', 'tuple', 'dict'], 'edges': [[1, 2], [2], [0, 1]], 'root': 0, 'root2': 2}
    # user objects (printer registered for the class / through a predicate) on cycles
    for k in OBJ_KINDS:
        yield {'kinds': [k], 'edges': [[0]], 'root': 0, 'root2': 0}
        yield {'kinds': [k, 'list', k], 'edges': [[1], [2, 2], [0, 1]], 'root': 0, 'root2': 2}
        yield {'kinds': ['dict', k, 'pobj'], 'edges': [[1, 2], [2, 0], [1, 2, -4]], 'root': 0, 'root2': 1}
    # a list / dict / tuple node that is the sole argument of a call and lies on a cycle through that call
    for k in KINDS:
        yield {'kinds': [k, 'wobj'], 'edges': [[1], [0]], 'root': 0, 'root2': 1}
        yield {'kinds': ['wobj', k], 'edges': [[1], [1, -2]], 'root': 0, 'root2': 1}
    # cycles whose back-reference is a commented dict value (rings of one to three dicts)
    for w in (20, 79):
        yield {'kinds': ['dict'], 'edges': [[0]], 'root': 0, 'root2': 0, 'commented': [[0, 0]], 'width': w}
        yield {'kinds': ['dict', 'dict'], 'edges': [[1], [0, -3]], 'root': 0, 'root2': 1, 'commented': [[1, 0], [0, 0]], 'width': w}
        yield {'kinds': ['dict', 'list', 'dict'], 'edges': [[1], [2, 2], [0]], 'root': 0, 'root2': 2, 'commented': [[2, 0]], 'width': w}


def strategy(tier):
    from hypothesis import strategies as st

    @st.composite
    def graphs(draw):
        n = draw(st.integers(1, 8))
        kinds = [draw(st.sampled_from(KINDS + KINDS + OBJ_KINDS)) for _ in range(n)]
        target = st.one_of(st.integers(0, n - 1), st.integers(0, n - 1), st.integers(-9, -1))
        edges = [draw(st.lists(target, max_size=3)) for _ in range(n)]
        case = {'kinds': kinds, 'edges': edges, 'root': 0, 'root2': draw(st.integers(0, n - 1))}
        all_edges = [[s, j] for s, outs in enumerate(edges) for j in range(len(outs))]
        if all_edges and draw(st.booleans()):
            case['commented'] = draw(st.lists(st.sampled_from(all_edges), max_size=3, unique_by=tuple))
            case['width'] = draw(st.sampled_from([20, 79]))
        return case
    return graphs()


def oracle(case):
    objs = build_graph(case)
    g = objs[case['root']]
    g2 = objs[case['root2']]
    w = case.get('width', 79)
    stats = {'markers': 0, 'expanded': {}}
    try:
        exp = expected(g, set(), stats)
        stats2 = {'markers': 0, 'expanded': {}}
        exp2 = expected(g2, set(), stats2)
    except RecursionError:
        return core.skip('harness-recursion')
    texts = []
    from .. import steps
    # (metering costs ~4 ms per print: applied where runaway expansion is conceivable - two or more
    # back-references (all graphs of <= 2 or > 3 nodes, a hash-selected quarter of the 3-node enumeration), commented edges)
    many = stats['markers'] >= 2 or stats2['markers'] >= 2
    metered = bool(case.get('commented')) or len(objs) <= 2 or (many and (len(objs) > 3 or core.digest(case)[0] < 64))
    try:
        for step_i, value in enumerate((g, g, [1, 2], g2, g)):
            if step_i in (0, 3) and metered:
                # termination: the first print of each root runs under a budget of executed package lines
                # (these graphs need a few thousand); exceeding it is reported instead of hanging
                nsteps, p, exceeded = steps.measure(lambda: values.pp(value, guard=False, width=w), cap=STEP_CAP)
                if exceeded:
                    return core.viol('no-termination-within-budget', 'more than %d package lines for a graph of %d nodes' % (STEP_CAP, len(objs)))
            else:
                p, exceeded = steps.guarded(lambda: values.pp(value, guard=False, width=w), cap=STEP_CAP, cpu_seconds=2.0)
                if exceeded:
                    return core.viol('no-termination-within-budget', 'more than %d package lines for a graph of %d nodes' % (STEP_CAP, len(objs)))
            if p.exc is not None:
                return core.viol('pformat-raised', repr(p.exc))
            if p.fallback_warnings():
                return core.viol('printer-failed', p.fallback_warnings()[0][:400])
            texts.append(p.text)
    except RecursionError:
        return core.viol('recursion-error', 'printing a graph of %d nodes exhausted the interpreter stack' % len(objs))
    # an aborted print in between: a printer returning a non-document makes pformat raise while the
    # containers on the path are still being printed; afterwards the graph must print as before
    from .. import faults
    sinks = []
    for o in objs:
        s = o[0] if isinstance(o, tuple) else (o.items if isinstance(o, (CNode, PNode, WNode)) else o)
        if not any(s is x for x in sinks):
            sinks.append(s)
    bads = []
    for s in sinks:
        bad = faults.FNode('abort', [])
        bad.badret = (5,)
        bads.append(bad)
        if isinstance(s, dict):
            s['__abort__'] = bad
        else:
            s.append(bad)
    try:
        aborted, exceeded = steps.guarded(lambda: values.pp(g, guard=False, width=w), cap=STEP_CAP, cpu_seconds=2.0)
        if exceeded:
            aborted = None
    except RecursionError:
        aborted = None
    finally:
        for s in sinks:
            if isinstance(s, dict):
                del s['__abort__']
            else:
                s.pop()
    if aborted is not None and not isinstance(aborted.exc, ValueError):
        return core.viol('bad-return-not-reported', repr(aborted.exc or aborted.text)[:300])
    try:
        after, exceeded = steps.guarded(lambda: values.pp(g, guard=False, width=w), cap=STEP_CAP, cpu_seconds=2.0)
        if exceeded:
            return core.viol('no-termination-within-budget', 'reprint after an aborted print')
    except RecursionError:
        return core.viol('recursion-error', 'after an aborted print')
    if after.text != texts[0]:
        return core.viol('residue-after-aborted-print', 'before\n%s\nafter a print that raised\n%s' % (texts[0][:400], (after.text or repr(after.exc))[:400]))
    if texts[0] != texts[1] or texts[0] != texts[4]:
        return core.viol('reprint-differs', 'first\n%s\nlater\n%s' % (texts[0][:400], (texts[1] if texts[0] != texts[1] else texts[4])[:400]))
    if texts[2] != '[1, 2]':
        return core.viol('residue-in-unrelated-print', texts[2][:200])
    for which, text, want in (('g', texts[0], exp), ('g2', texts[3], exp2)):
        try:
            got = parse_output(text)
        except SyntaxError as e:
            return core.viol('not-parseable', '%r\n%s' % (e, text[:500]))
        if got != want:
            return core.viol('markers-misplaced', '%s: expected %r\ngot %r\n%s' % (which, want, got, text[:600]))
    shared = any(c > 1 for c in stats['expanded'].values())
    labels = []
    if stats['markers']:
        labels.append('cycle')
    if shared:
        labels.append('sharing')
    return core.ok(stats['markers'] >= 1 and shared, labels)
