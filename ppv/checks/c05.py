"""C05 - a group laid out on one line never overflows the page or the ribbon."""
from .. import core, docterm, refsem

ID = 'C05'
LEVEL = 'exploration'
RULE = ('case = (classic-algebra term: text/concat/nest/group/line/softline/hardline/always_break/align, width >= 1, '
        'ribbon fraction in (0,1], strategy). Exhaustive: all terms <= 5 nodes (quick) / <= 6 (thorough) over leaves '
        '{a, bbb, line, soft, hard} x widths {1..8} x fractions {1.0, 0.6, 0.3} x both strategies, plus templates of two '
        'groups sharing a line under different nest/align indentation over text lengths x widths 1..14/23; random: terms up to '
        '16 leaves with text lengths 1..7. The flat/broken decision of every group is recovered by replaying the term '
        'against the emitted stream (all reproducing assignments are enumerated; the oracle quantifies existentially). '
        'Oracle: in some reproducing assignment every flat group with a direct line/softline has its whole output line '
        '<= width and <= group indent + ribbon_width (untrimmed stream). non-trivial = >= 1 group with a direct choice '
        'was laid out flat and >= 1 line break exists in the output; distinct by hash of term+config')
ASSUMPTIONS = ['ribbon_width = max(0, min(width, round(frac * width))) as documented in the property anchors',
               'groups whose flat reading reaches a hardline (known finding KF1) are not judged',
               'decisions that are not observable (group without its own line/softline) are not judged']
BUDGET = {'quick': {'random': 8000, 'shards': 16}, 'thorough': {'random': 400000, 'shards': 16}}
FUZZ = {'runs': 60000}   # thorough tier: 16 atheris campaigns of this many executions over the same strategy and oracle

WIDTHS = [1, 2, 3, 4, 5, 6, 7, 8]
FRACS = [1.0, 0.6, 0.3]


def enumerate_cases(tier):
    n = 5 if tier == 'quick' else 6
    for t in docterm.all_terms_upto(n, classic=True):
        if docterm.count_kind(t, 'grp') == 0:
            continue
        if not any(k in ('line', 'soft') for k in docterm.kinds(t)):
            continue
        for w in WIDTHS:
            for f in FRACS:
                for s in ('smart', 'fast'):
                    yield {'t': t, 'w': w, 'frac': f, 'strategy': s}
    yield from templates(tier)


def templates(tier):
    """Shapes too large for the node-bounded enumeration: two or three groups sharing one line with different
    indentation (nest / align) or separated by forced breaks - each group's budget differs."""
    import itertools
    T = lambda n: ['t', 'x' * n]
    g = lambda a, b: ['grp', ['cat', [T(a), ['line'], T(b)]]]
    lens = (1, 3) if tier == 'quick' else (1, 2, 4)
    widths = list(range(1, 15)) if tier == 'quick' else list(range(1, 24))
    for a, b, c, d in itertools.product(lens, repeat=4):
        for k in (0, 2, 4):
            for s in (0, 2):
                second = ['nest', k, ['cat', [T(s), g(c, d)]]] if s else ['nest', k, g(c, d)]
                docs = [
                    ['cat', [g(a, b), second]],
                    ['cat', [g(a, b), ['align', g(c, d)]]],
                    ['nest', k, ['cat', [T(1), ['hard'], T(2), ['cat', [g(a, b), ['line'], g(c, d)]]]]],
                    ['grp', ['cat', [T(a), ['line'], ['nest', k, g(c, d)], ['soft'], T(b)]]],
                ]
                if s == 0:
                    # a group followed by a more deeply indented line of its own (the smart strategy looks at it)
                    for n2 in (3, 6, 9):
                        docs.append(['cat', [g(a, b), ['nest', k or 2, ['cat', [['hard'], T(n2)]]]]])
                        docs.append(['cat', [T(c), g(a, b), ['nest', k or 2, ['cat', [['hard'], T(n2), ['line'], T(d)]]]]])
                if s == 0:
                    # a group followed on its line by an align whose own (forced) second line is deeper: the column the
                    # look-ahead hands to the align decides whether that line is believed to pass the page
                    for n2 in (2, 4, 7):
                        docs.append(['cat', [g(a, b), ['align', ['cat', [T(c), ['hard'], T(n2)]]]]])
                        docs.append(['nest', k or 2, ['cat', [T(2), ['hard'], g(a, b), ['align', ['cat', [T(c), ['hard'], T(n2)]]]]]])
                for doc in docs:
                    for w in widths:
                        for f in (1.0, 0.6, 0.3):
                            for strat in ('smart', 'fast'):
                                yield {'t': doc, 'w': w, 'frac': f, 'strategy': strat}


def strategy(tier):
    from hypothesis import strategies as st
    return st.fixed_dictionaries({
        't': docterm.term_strategy(classic=True, max_leaves=16),
        'w': st.one_of(st.integers(1, 12), st.integers(1, 40)),
        'frac': st.one_of(st.sampled_from([1.0, 0.9, 0.5, 0.3, 0.1, 0.05]), st.integers(1, 100).map(lambda n: n / 100)),
        'strategy': st.sampled_from(['smart', 'fast']),
    })


def ribbon_of(w, frac):
    return max(0, min(w, round(frac * w)))


def analyse(case):
    """-> (stream, assignments) or a core.Result"""
    from prettyprinter import sdoctypes
    from .c04 import layout
    try:
        stream, _ = layout(case)
    except RecursionError:
        return core.skip('recursion')
    except Exception as e:
        return core.viol('engine-raised', repr(e))
    try:
        assigns = refsem.recover_decisions(case['t'], stream, sdoctypes)
    except refsem.TooAmbiguous:
        return core.skip('too-ambiguous')
    if not assigns:
        return core.viol('not-a-layout', 'stream %r reproduces no assignment of %s' % (stream, core.canonical(case['t'])[:400]))
    return stream, assigns


def oracle(case):
    from prettyprinter import sdoctypes
    res = analyse(case)
    if isinstance(res, core.Result):
        return res
    stream, assigns = res
    w = case['w']
    ribbon = ribbon_of(w, case['frac'])
    best = None
    ff = {}
    for recs in assigns:
        bad = None
        nflat = 0
        exact = 0
        for d in recs:
            if not d.flat or not refsem.has_direct_choice(d.term[1]):
                continue
            if refsem.first_forced(d.term[1], ff) is not None:
                continue  # KF1 territory / forced: not judged here
            nflat += 1
            end = refsem.line_end_col(stream, d.pos, sdoctypes)
            limit = min(w, d.indent + ribbon)
            if end > limit:
                bad = (end, w, d.indent + ribbon, d.term)
                break
            if end == limit:
                exact += 1
        if bad is None:
            best = (nflat, exact)
            break
        best_bad = bad
    if best is None:
        end, w_, rib, term = best_bad
        return core.viol('flat-group-overflows', 'line ends at column %d > min(width %d, indent+ribbon %d) with flat group %s\nstream %r' % (
            end, w_, rib, core.canonical(term)[:300], stream))
    nflat, exact = best
    labels = [case['strategy']]
    if len(assigns) > 1:
        labels.append('ambiguous')
    if exact:
        labels.append('exact-fit')
    broke = any(isinstance(x, sdoctypes.SLine) for x in stream)
    return core.ok(nflat >= 1 and broke, labels)
