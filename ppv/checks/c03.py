"""C03 - width, ribbon and indent change only the layout, never the content."""
import ast

from .. import core, values, gens, vtypes, stdvals

ID = 'C03'
LEVEL = 'exploration'
RULE = ('case = (printable value: built-in trees whose leaves may be subclass instances, pretty_call objects and stdlib '
        'instances, with comment()/trailing_comment() wrappers; a set of 5-7 configurations (width, ribbon_width, indent): '
        'always (1,1,1), (200,200,8) and the default (79,71,4), plus configurations placed around the one-line length L of '
        'the value and random ones in [1,200]x[1,200]x[1,8]); sort_dict_keys, max_seq_len and depth are drawn per case and held fixed across its configurations). Exhaustive: the C01 small-tree alphabet (<= 3 nodes) and a '
        'fixed corpus of commented/stdlib/subclass values x a grid of 24 configurations; random: Hypothesis. Oracle: '
        'ast.dump(ast.parse("(" + out + ")")) is identical for all configurations of the value; every non-blank output '
        'line starts with a multiple of `indent` spaces. non-trivial = at least two configurations produced different '
        'text; distinct by case hash')
ASSUMPTIONS = ['ast.dump equality is "same syntax tree" (string pieces concatenate, redundant parentheses vanish)',
               'values whose output is not an expression by design (recursion markers) are not generated']
BUDGET = {'quick': {'random': 4000, 'shards': 16}, 'thorough': {'random': 200000, 'shards': 16}}

GRID = [(1, 1, 1), (200, 200, 8), (79, 71, 4), (2, 200, 3), (10, 5, 4), (20, 20, 2), (40, 10, 5), (5, 5, 7),
        (30, 200, 1), (60, 30, 6), (15, 15, 4), (8, 3, 2)]
CORPUS = [
    ['list', [['cmt', 'a comment of several words', ['sub', 'str', 'plain', ['str', 'abcdefghij klmnop']]], ['int', 1]]],
    ['dict', [[['str', 'key'], ['cmt', 'c', ['sub', 'str', 'repr', ['str', 'lorem ipsum dolor sit amet consectetur']]]],
              [['sub', 'int', 'enum', ['int', 1]], ['std', 'timedelta', [-800, 3661, 1001]]]]],
    ['call', 'box', [['sub', 'bytes', 'plain', ['bytes', (b'abc def ' * 5).hex()]]], [['kw', ['std', 'path', 'PurePosixPath', '/usr/local/lib/python/site-packages/x.py']]]],
    ['tcmt', 'trailing note', ['tuple', [['cmt', 'only', ['std', 'datetime', [2020, 1, 2, 0, 0, 5, 0], ['fixed', 3600, 0, 'X'], 0]]]]],
    ['std', 'odict', [[['str', 'a'], ['list', [['int', 1], ['int', 2]]]], [['tuple', [['int', 1]]], ['std', 'deque', [['str', 'x y z']], 3]]]],
    ['list', [['std', 'ntuple', 'Point', [['str', 'some text that is long enough to split'], ['none']]], ['std', 'exc', 'ValueError', [['str', 'message text'], ['int', 2]]]]],
    ['sub', 'dict', 'plain', ['dict', [[['str', 'k1'], ['sub', 'list', 'str', ['list', [['int', 1], ['str', 'two words']]]]], [['str', 'k2'], ['fset', [['int', 1]]]], [['str', 'k3'], ['none']]]]],
]


def enumerate_cases(tier):
    from . import c01
    for n in range(1, 4):
        for t in c01.trees(n):
            yield {'v': t, 'cfgs': [list(c) for c in GRID[:8]]}
    for v in CORPUS:
        for off in range(0, len(GRID), 4):
            yield {'v': v, 'cfgs': [list(c) for c in (GRID[off:] + GRID[:off])[:8]] + [['L', -2], ['L', 0], ['L', 1], ['L', 7]]}
        for w in (range(1, 60) if tier == 'thorough' else range(1, 60, 3)):
            yield {'v': v, 'cfgs': [[79, 71, 4], [w, w, 4], [w, max(1, w // 2), 2]]}


def fixed_cases():
    yield from _more_fixed()
    yield {'v': ['dict', [[['int', 0], ['sub', 'str', 'plain', ['str', 'abcdefghij']]]]], 'cfgs': [[14, 14, 4], [79, 71, 4], [1, 1, 1]]}   # D2


def _more_fixed():
    long = 'a comment long enough to be put above the value it belongs to'
    inner = ['dict', [[['str', 'a'], ['list', [['int', 1], ['list', [['int', 2]]]]]]]]
    # a one-element tuple whose element carries a comment; strings with a backslash before an apostrophe next to double quotes
    for v in (['tuple', [['cmt', long, ['int', 1]]]], ['list', [['tuple', [['cmt', long, ['str', 'x']]]], ['int', 0]]],
              ['tuple', [['tcmt', 'short', ['list', [['int', 1]]]]]]):
        yield {'v': v, 'cfgs': [[1, 1, 1], [10, 10, 2], [30, 30, 4], [79, 71, 4], [200, 200, 8]], 'opts': {}}
    for text in ('a "b" c\\\'d "e" f\\\'g h "i" and on and on', 'say "hi" \\\' and "bye" \\\' then stop here', "it's a \"q\" \\' mix of all three kinds"):
        for v in (['list', [['str', text]]], ['dict', [[['str', text], ['bytes', text.encode().hex()]]]], ['call', 'box', [], [['a', ['str', text]]]]):
            yield {'v': v, 'cfgs': [[w, w, 2] for w in (1, 8, 12, 16, 20, 26, 34, 200)], 'opts': {}}
    for v in (['dict', [[['str', 'k'], ['cmt', long, inner]]]], ['list', [['dict', [[['str', 'k'], ['cmt', long, inner]], [['str', 'z'], ['int', 0]]]]]],
              ['dict', [[['str', 'k'], ['cmt', 'c', ['call', 'box', [['list', [['int', 1]]]], [['a', ['cmt', long, ['int', 2]]]]]]]]]):
        for d in (1, 2, 3, None):
            yield {'v': v, 'cfgs': [[1, 1, 1], [20, 20, 2], [40, 30, 4], [79, 71, 4], [200, 200, 8]], 'opts': {'depth': d}}
            yield {'v': v, 'cfgs': [[12, 12, 4], [200, 200, 4]], 'opts': {'depth': d, 'max_seq_len': 1}}


def strategy(tier):
    S = values.strategies()
    st = S['st']
    w = S['width']
    cfg = st.one_of(st.tuples(w, w, st.integers(1, 8)).map(list),
                    st.tuples(st.just('L'), st.integers(-6, 12)).map(list))
    opts = st.fixed_dictionaries({}, optional={'sort_dict_keys': st.booleans(), 'max_seq_len': st.sampled_from([1, 2, 3, 1000]),
                                               'depth': st.sampled_from([1, 2, 3, None])})
    return st.fixed_dictionaries({
        'v': gens.any_value(S, comments=True),
        'cfgs': st.lists(cfg, min_size=2, max_size=4).map(lambda cs: [[1, 1, 1], [200, 200, 8], [79, 71, 4]] + cs),
        'opts': st.one_of(st.just({}), opts),
    })


_ENV = {}


def oracle(case):
    v = values.build(case['v'])
    opts = case.get('opts') or {}     # held fixed across the configurations of one case
    big = values.pp(v, width=10 ** 6, ribbon_width=10 ** 6, **opts)
    L = len(big.text) if big.text and '\n' not in big.text else 60
    outs = []
    dumps = []
    for c in case['cfgs']:
        if c[0] == 'L':
            w = max(1, L + c[1])
            cfg = {'width': w, 'ribbon_width': w, 'indent': 4}
        else:
            cfg = {'width': c[0], 'ribbon_width': c[1], 'indent': c[2]}
        p = values.pp(v, **cfg, **opts)
        if p.exc is not None:
            return core.viol('pformat-raised', '%r under %r' % (p.exc, cfg))
        try:
            d = ast.dump(ast.parse('(' + p.text + '\n)', mode='eval'))
        except SyntaxError as e:
            return core.viol('not-an-expression', 'under %r: %r\n%s' % (cfg, e, p.text[:600]))
        for line in p.text.split('\n'):
            if line.strip() == '':
                continue
            lead = len(line) - len(line.lstrip(' '))
            if lead % cfg['indent']:
                return core.viol('indentation-not-multiple', 'indent %d, line %r in\n%s' % (cfg['indent'], line[:80], p.text[:600]))
        outs.append((cfg, p.text))
        dumps.append(d)
    for i in range(1, len(dumps)):
        if dumps[i] != dumps[0]:
            return core.viol('content-depends-on-layout', 'under %r\n%s\nunder %r\n%s' % (outs[0][0], outs[0][1][:600], outs[i][0], outs[i][1][:600]))
    texts = {t for _, t in outs}
    labels = ['opt:' + k for k in sorted(opts)]
    if case['v'][0] in ('cmt', 'tcmt'):
        labels.append('top-comment')
    return core.ok(len(texts) >= 2, labels)
