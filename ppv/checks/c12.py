"""C12 - printing terminates and its work grows polynomially with the input."""
import collections
import types

from .. import core, steps, values

ID = 'C12'
LEVEL = 'exploration'
RULE = ('case = parametrised input family F(n): (nest) a wrapper recipe - 1..4 wrappers from {list, pair-list, tuple, dict '
        'value, dict with tuple key, frozenset, SimpleNamespace arg, pretty_call arg, list / dict / tuple subclass, OrderedDict, defaultdict, deque, ChainMap, mappingproxy, namedtuple, exception args, an object with a registered printer and __repr__ = pretty_repr, an object printed through repr(), a dataclass / attrs instance holding the rest in a default-factory field (extras installed), comment, '
        'trailing comment} applied cyclically n times to a leaf (int, word string, empty string, long string); (wide) n '
        'siblings of a small nested shape in a list / dict / tuple / set; (str) strings of n words / n unbreakable chars / '
        'n escapes, str and bytes, at a fixed width, top level and nested; (ring) a cycle of n dicts / lists whose '
        'back-reference is plain or commented. Fixed families from the statement and every ordered pair/triple (up to rotation) over {list, dict value, tuple, '
        'call, comment, trailing comment} are enumerated; '
        'recipes are drawn by Hypothesis. Oracle: steps(x) = sys.monitoring LINE events inside the package during one '
        'pformat; for n = n0, 2n0, 4n0, 8n0 (n0 = 8 nesting / 50 length) require steps(2n) <= 12 * steps(n) + 10^4; every run is '
        'capped at 12*steps(previous) + 10^4 events, the first at 4*10^5 for nestings and 3.2*10^6 for the n0=50 families (the largest nesting first point of any family on the unchanged tree is about 2*10^5) (termination is decided by the same cap, never by '
        'wall time). Points that hit CPython\'s recursion limit are skipped. non-trivial = steps(n0) >= 1000 and at least '
        'two doublings measured; distinct by family hash')
ASSUMPTIONS = ['a growth law at four points is evidence, not proof, of polynomial behaviour',
               'families in which a comment sits on a dict value at every cycle of the recipe are excluded by construction '
               '(known finding D19) and counted under skip:excluded-D19; the witness family is measured and reported']
BUDGET = {'quick': {'random': 64, 'shards': 16, 'shrink_s': 5}, 'thorough': {'random': 1600, 'shards': 16, 'shrink_s': 30}}

B = 12
FIRST_CAP = 4 * 10 ** 5
WRAPPERS = ['list', 'pairlist', 'tuple', 'dictval', 'dictkeytuple', 'fset', 'ns', 'box', 'sublist', 'odict', 'comment', 'tcomment',
            'subdict', 'subtuple', 'prnode', 'plainobj', 'dc', 'attrsobj', 'ddict', 'deque', 'chainmap', 'mproxy', 'ntuple', 'exc']
DICT_LIKE = ('dictval', 'dictkeytuple', 'subdict', 'ddict', 'chainmap', 'mproxy')
NT = collections.namedtuple('NT', 'a b')


class PRNode:
    """registered printer + the documented idiom __repr__ = pretty_repr"""
    from prettyprinter import pretty_repr as __repr__

    def __init__(self, x):
        self.x = x


class PlainObj:
    """no printer: printed through repr(), which asks its content for repr()"""

    def __init__(self, x):
        self.x = x

    def __repr__(self):
        return 'PlainObj(%r)' % (self.x,)


_ready = {}


def _classes():
    if not _ready:
        import dataclasses
        import warnings
        import attr
        from prettyprinter import register_pretty, pretty_call, install_extras
        with warnings.catch_warnings():
            warnings.simplefilter('ignore')
            install_extras(['dataclasses', 'attrs'], raise_on_error=True)
        register_pretty(PRNode)(lambda v, ctx: pretty_call(ctx, 'PRNode', v.x))

        @dataclasses.dataclass
        class DC:
            label: int = 0
            children: list = dataclasses.field(default_factory=list)
        _ready['dc'] = DC
        _ready['attrs'] = attr.make_class('AT', {'label': attr.ib(default=0), 'children': attr.ib(factory=list)})
    return _ready
LEAVES = [['int', 1], ['str', 'word'], ['str', ''], ['str', 'lorem ipsum dolor sit amet ' * 3], ['bytes', '']]


def wrap(kind, x, i):
    from prettyprinter import comment, trailing_comment
    from .. import vtypes
    if kind == 'list':
        return [x]
    if kind == 'pairlist':
        return [x, i]
    if kind == 'tuple':
        return (x,)
    if kind == 'dictval':
        return {'k': x}
    if kind == 'dictkeytuple':
        return {('k', i): x}
    if kind == 'fset':
        try:
            return frozenset([x])
        except TypeError:
            return (x,)
    if kind == 'ns':
        return types.SimpleNamespace(a=x)
    if kind == 'box':
        return vtypes.Box(x)
    if kind == 'sublist':
        return vtypes.SUBCLASSES[('list', 'plain')]([x])
    if kind == 'odict':
        return collections.OrderedDict([('k', x)])
    if kind == 'subdict':
        return vtypes.SUBCLASSES[('dict', 'plain')]({'k': x})
    if kind == 'subtuple':
        return vtypes.SUBCLASSES[('tuple', 'plain')]((x,))
    if kind == 'prnode':
        _classes()
        return PRNode(x)
    if kind == 'plainobj':
        return PlainObj(x)
    if kind == 'dc':
        return _classes()['dc'](i, [x])
    if kind == 'attrsobj':
        return _classes()['attrs'](i, [x])
    if kind == 'ddict':
        return collections.defaultdict(list, {'k': x})
    if kind == 'deque':
        return collections.deque([x], maxlen=3 if i % 2 else None)
    if kind == 'chainmap':
        return collections.ChainMap({'k': x}, {'z': i})
    if kind == 'mproxy':
        return types.MappingProxyType({'k': x})
    if kind == 'ntuple':
        return NT(x, i)
    if kind == 'exc':
        return ValueError(x, i)
    if kind == 'comment':
        return comment(x, 'note %d on this level' % i)
    if kind == 'tcomment':
        return trailing_comment(x, 'trailing %d' % i)
    raise ValueError(kind)


def build_family(case, n):
    k = case['kind']
    if k == 'nest':
        x = values.build(case['leaf'])
        ws = case['wrappers']
        for i in range(n):
            # counted from the outside, so that the outermost wrapper is ws[0] at every n
            x = wrap(ws[(n - 1 - i) % len(ws)], x, i)
        return x
    if k == 'wide':
        shape = case['shape']
        items = []
        for i in range(n):
            x = i if case['leaf'] == 'int' else 'item %d' % i
            for w in shape:
                x = wrap(w, x, i)
            items.append(x)
        c = case['container']
        if c == 'list':
            return items
        if c == 'tuple':
            return tuple(items)
        if c == 'dict':
            return {i: x for i, x in enumerate(items)}
        if c == 'commented-list':
            from prettyprinter import comment
            return [comment(x, 'c %d' % i) for i, x in enumerate(items)]
        if c == 'set':
            return set(range(n))
        if c == 'counter':
            return collections.Counter({i: i for i in range(n)})
    if k == 'ring':
        # a cycle of n containers (finite value!): node i refers to node i+1, the last one back to the first
        from prettyprinter import comment
        nodes = [{} if case['node'] == 'dict' else [] for _ in range(n)]
        for i, node in enumerate(nodes):
            nxt = nodes[(i + 1) % n]
            if case['commented']:
                nxt = comment(nxt, 'next of %d, with enough words to be put above the value' % i)
            if isinstance(node, dict):
                node['next'] = nxt
                if case['extra']:
                    node['again'] = nodes[(i + 1) % n]
            else:
                node.append(nxt)
                if case['extra']:
                    node.append(nodes[(i + 1) % n])
        return nodes[0]
    if k == 'str':
        s = {'words': 'word ' * n, 'unbreakable': 'x' * n, 'escapes': '\n\'"\\' * n, 'nonword': 'ab-cd/' * n,
             'spaces': ' ' * n}[case['text']]
        if case['bytes']:
            s = s.encode()
        x = s
        for i, w in enumerate(case['around']):
            x = wrap(w, x, i)
        return x
    raise ValueError(k)


def d19(case):
    """a comment sits on a dict value at two or more nesting levels"""
    if case['kind'] == 'ring':
        return case['node'] == 'dict' and case['commented']     # a ring of dicts with commented values nests them n deep
    if case['kind'] != 'nest':
        return False
    # trailing comments are transparent here: comment(trailing_comment(x)) as a dict value is still a commented value
    ws = [w for w in case['wrappers'] if w != 'tcomment']
    # (ws[0] is the outermost wrapper, ws[i + 1] sits inside ws[i]; every wrapper printed through the dict printer counts)
    return any(ws[i] in DICT_LIKE and ws[(i + 1) % len(ws)] == 'comment' for i in range(len(ws)))


def n0_of(case):
    return 8 if case['kind'] in ('nest', 'ring') else 50


def enumerate_cases(tier):
    w = 79
    # the statement's families
    for ws in (['list'], ['dictval'], ['tuple'], ['fset'], ['box'], ['ns'], ['odict'], ['sublist'], ['pairlist'],
               ['dictkeytuple'], ['comment', 'list'], ['comment', 'pairlist'], ['list', 'tcomment'],
               ['comment', 'tuple', 'dictkeytuple'], ['dictval', 'comment', 'list'], ['tcomment', 'dictval'],
               ['comment', 'box'], ['list', 'dictval', 'tuple', 'ns'],
               # subclass instances, user classes (registered printer with __repr__ = pretty_repr, alone and around objects
               # printed through repr()), dataclass / attrs trees through a default-factory field, stdlib containers
               ['subdict'], ['subtuple'], ['subdict', 'sublist'], ['tcomment', 'subdict'], ['prnode'], ['plainobj'], ['prnode', 'plainobj'],
               ['prnode', 'list', 'plainobj'], ['dc'], ['attrsobj'], ['dc', 'attrsobj'], ['comment', 'dc'], ['ddict'], ['deque'],
               ['chainmap'], ['mproxy'], ['ntuple'], ['exc'], ['ntuple', 'deque', 'ddict'], ['comment', 'mproxy', 'list']):
        for leaf in (LEAVES[0], LEAVES[2], LEAVES[3]):
            yield {'kind': 'nest', 'wrappers': ws, 'leaf': leaf, 'width': w}
    # every ordered pair and triple over a reduced wrapper set (comments next to every container / call kind)
    import itertools
    core_ws = ['list', 'dictval', 'tuple', 'box', 'comment', 'tcomment']
    seen = set()
    for k in (2, 3):
        for ws in itertools.product(core_ws, repeat=k):
            # rotations of a cyclic recipe are the same family up to the outermost levels
            rot = min(tuple(ws[i:] + ws[:i]) for i in range(k))
            if rot in seen or len(set(ws)) == 1:
                continue
            seen.add(rot)
            yield {'kind': 'nest', 'wrappers': list(ws), 'leaf': ['int', 1], 'width': w}
    for c in ('list', 'tuple', 'dict', 'commented-list', 'set', 'counter'):
        for shape in ([], ['list'], ['dictval', 'tuple']):
            yield {'kind': 'wide', 'container': c, 'shape': shape, 'leaf': 'int', 'width': w}
    yield {'kind': 'wide', 'container': 'list', 'shape': ['pairlist'], 'leaf': 'str', 'width': 30}
    for text in ('words', 'unbreakable', 'escapes', 'nonword', 'spaces'):
        for b in (False, True):
            for around in ([], ['list'], ['dictval', 'list', 'list', 'list', 'list', 'list', 'list', 'list', 'list', 'list', 'list', 'list', 'list', 'list', 'list', 'list', 'list', 'list', 'list', 'list', 'list']):
                for width in ((79,) if tier == 'quick' else (79, 20, 1)):
                    yield {'kind': 'str', 'text': text, 'bytes': b, 'around': around, 'width': width}
    # cyclic values are finite values too: rings of n containers, back-reference plain or commented
    for node in ('dict', 'list'):
        for commented in (False, True):
            for extra in (False,):
                for width in (79, 20):
                    yield {'kind': 'ring', 'node': node, 'commented': commented, 'extra': extra, 'width': width}
    # known finding D19: the witness family
    yield {'kind': 'nest', 'wrappers': ['comment', 'dictval'], 'leaf': ['int', 1], 'width': w, 'witness': 'D19'}


def strategy(tier):
    from hypothesis import strategies as st
    nest = st.fixed_dictionaries({
        'kind': st.just('nest'), 'wrappers': st.lists(st.sampled_from(WRAPPERS), min_size=1, max_size=4),
        'leaf': st.sampled_from(LEAVES), 'width': st.sampled_from([79, 79, 20, 200]),
    })
    wide = st.fixed_dictionaries({
        'kind': st.just('wide'), 'container': st.sampled_from(['list', 'tuple', 'dict', 'commented-list']),
        'shape': st.lists(st.sampled_from(WRAPPERS), max_size=3), 'leaf': st.sampled_from(['int', 'str']),
        'width': st.sampled_from([79, 20]),
    })
    strs = st.fixed_dictionaries({
        'kind': st.just('str'), 'text': st.sampled_from(['words', 'unbreakable', 'escapes', 'nonword', 'spaces']),
        'bytes': st.booleans(), 'around': st.lists(st.sampled_from(['list', 'dictval', 'tuple', 'box', 'pairlist']), max_size=24),
        'width': st.sampled_from([79, 20, 5, 1]),
    })
    return st.one_of(nest, nest, wide, strs)


def measure_points(case, points):
    """-> list of (n, steps or None, note)"""
    out = []
    prev = None
    for n in points:
        try:
            v = build_family(case, n)
        except RecursionError:
            out.append((n, None, 'recursion-building'))
            break
        cap = (FIRST_CAP if case['kind'] in ('nest', 'ring') else 8 * FIRST_CAP) if prev is None else B * prev + 10 ** 4
        try:
            cnt, res, exceeded = steps.measure(lambda: values.pp(v, guard=False, width=case['width'], ribbon_width=case['width']), cap=cap)
        except RecursionError:
            out.append((n, None, 'recursion'))
            break
        if exceeded:
            out.append((n, cnt, 'cap-exceeded'))
            break
        out.append((n, cnt, None))
        prev = cnt
    return out


def oracle(case):
    n0 = n0_of(case)
    is_d19 = d19(case)
    if is_d19 and not case.get('witness'):
        return core.skip('excluded-D19')
    pts = measure_points(case, [n0, 2 * n0, 4 * n0, 8 * n0])
    labels = [case['kind']]
    measured = [(n, c) for n, c, note in pts if c is not None and note is None]
    bad = [(n, c, note) for n, c, note in pts if note == 'cap-exceeded']
    if any(note and note.startswith('recursion') for _, _, note in pts):
        labels.append('recursion-limit')
    detail = 'family %s: steps %r' % (core.canonical(case)[:300], [(n, c, note) for n, c, note in pts])
    if bad:
        if is_d19:
            return core.known('D19', detail, labels=labels)
        if len(measured) == 0:
            return core.viol('no-termination-within-budget', detail, labels)
        return core.viol('super-polynomial-growth', detail, labels)
    ratios = [measured[i + 1][1] / max(1, measured[i][1]) for i in range(len(measured) - 1)]
    # (the same allowance as the cap of each run: a doubling may cost B times the work plus 10^4 lines)
    if any(measured[i + 1][1] > B * measured[i][1] + 10 ** 4 for i in range(len(measured) - 1)):
        if is_d19:
            return core.known('D19', detail, labels=labels)
        return core.viol('super-polynomial-growth', detail, labels)
    if ratios:
        labels.append('max-ratio<=%d' % (int(max(ratios)) + 1))
    return core.ok(len(measured) >= 3 and measured[0][1] >= 1000, labels)
