"""C09 - comments are inert and preserved."""
import ast
import types as _types
import io
import itertools
import tokenize

from .. import core, values, vtypes, gens
from . import c01

ID = 'C09'
LEVEL = 'exploration'
RULE = ('case = (value tree over built-ins and pretty_call objects with comment()/trailing_comment() wrappers on any '
        'nodes - leaf, container, container-subclass instance (also empty), dict key, dict value, set element, call argument, top level, sole tuple element - '
        'comment text over {a, bb, space, newline, #, quotes, brackets, comma, colon, backslash, non-ASCII} incl. blank '
        '[random cases also draw a depth limit, applied to both the commented and the stripped value: syntax tree only] '
        'and whitespace-only lines, width, indent). Exhaustive: all placements of <= 2 comments on all trees with <= 3 '
        '(quick) / 4 (thorough) nodes x 4 texts x 4 widths; random: Hypothesis trees x texts x widths 1..79. Oracle: no '
        'exception, no warning other than the documented "does not support rendering trailing comments"; AST of the '
        'output == AST of the comment-stripped value printed at the same settings (set displays compared as multisets); '
        'the multiset of all COMMENT-token words == the multiset of all attached comment words, and the words of each '
        'comment occur in order in the COMMENT-token stream (the pre-order placement is only recorded as a class). non-trivial = some comment with >= 2 words or a newline is attached below the top level; distinct by '
        'case hash')
ASSUMPTIONS = ['tokenize COMMENT tokens delimit what is "inside a # comment"; ast.dump equality is "same syntax tree"',
               'trailing comments on nodes whose printer does not take them are dropped with the documented warning',
               'cases in which stripping the wrappers merges dict keys / set elements are skipped (value changes)',
               'comment objects stored as field values of dataclass / attrs instances are not generated: a commented field '
               'that equals its default is shown with its comment (the wrapper differs from the default), so the two clauses '
               'of the statement - same syntax tree, every comment word shown - cannot both hold there; the output still '
               'evaluates to an equal instance']
BUDGET = {'quick': {'random': 8000, 'shards': 16}, 'thorough': {'random': 300000, 'shards': 16}}
FUZZ = {'runs': 30000}   # thorough tier: 16 atheris campaigns of this many executions over the same strategy and oracle

TEXTS = ['first line\rsecond line', 'one\r\ntwo\x0cthree\u2028four', 'x', 'a\n\nb', "it's # (k: v, [", 'w1 w2 w3 w4 w5 w6 w7', '  lead\n  \ntrail  ', '"\\']
LEAVES = [['int', 1], ['str', 'a b'], ['tuple', []]]
SUPPORTS_TRAILING = ('list', 'tuple', 'set', 'dict', 'call:nt', 'call:ns', 'call:tsize')


def _paths(r, prefix=()):
    """paths of all nodes (dict pairs: ('k', i) / ('v', i))"""
    yield prefix
    t = r[0]
    if t in ('list', 'tuple', 'set', 'fset'):
        for i, x in enumerate(r[1]):
            yield from _paths(x, prefix + (i,))
    elif t == 'dict':
        for i, (k, v) in enumerate(r[1]):
            yield from _paths(k, prefix + (('k', i),))
            yield from _paths(v, prefix + (('v', i),))
    elif t == 'sub':
        # (the built-in container inside a subclass instance is not a node of its own: no wrapper may sit on it)
        inner = list(_paths(r[3], prefix + ('s',)))
        yield from inner[1:]
    elif t == 'call':
        for i, a in enumerate(r[2]):
            yield from _paths(a, prefix + (('a', i),))
        for i, (_, a) in enumerate(r[3]):
            yield from _paths(a, prefix + (('w', i),))


def _wrap_at(r, path, kind, text):
    if not path:
        return [kind, text, r]
    t = r[0]
    if t in ('cmt', 'tcmt'):
        return [t, r[1], _wrap_at(r[2], path, kind, text)]
    head, rest = path[0], path[1:]
    if t == 'sub':
        return ['sub', r[1], r[2], _wrap_at(r[3], rest, kind, text)]
    if t == 'call':
        which, i = head
        args = list(r[2])
        kwargs = [list(p) for p in r[3]]
        if which == 'a':
            args[i] = _wrap_at(args[i], rest, kind, text)
        else:
            kwargs[i][1] = _wrap_at(kwargs[i][1], rest, kind, text)
        return ['call', r[1], args, kwargs]
    if t == 'dict':
        which, i = head
        pairs = [list(p) for p in r[1]]
        j = 0 if which == 'k' else 1
        pairs[i][j] = _wrap_at(pairs[i][j], rest, kind, text)
        return ['dict', pairs]
    items = list(r[1])
    items[head] = _wrap_at(items[head], rest, kind, text)
    return [t, items]


def enumerate_cases(tier):
    maxn = 3 if tier == 'quick' else 4
    old = c01.LEAVES
    c01.LEAVES = LEAVES
    try:
        trees = [t for n in range(1, maxn + 1) for t in c01.trees(n)]
    finally:
        c01.LEAVES = old
    widths = [1, 10, 30, 79]
    for t in trees:
        slots = [(p, k) for p in _paths(t) for k in ('cmt', 'tcmt')]
        combos = [()] + [(s,) for s in slots] + list(itertools.combinations(slots, 2))
        for combo in combos:
            if not combo:
                continue
            for ti in range(4):
                r = t
                # deeper paths first so that indices stay valid
                for n, (path, kind) in enumerate(sorted(combo, key=lambda s: -len(s[0]))):
                    r = _wrap_at(r, path, kind, TEXTS[(ti + n) % len(TEXTS)])
                for w in widths:
                    yield {'v': r, 'width': w, 'ribbon': w, 'indent': 4}


def fixed_cases():
    for base, inner in (('list', ['list', []]), ('tuple', ['tuple', []]), ('set', ['set', []]), ('dict', ['dict', []]),
                        ('dict', ['dict', [[['int', 1], ['cmt', 'v', ['int', 2]]]]]), ('list', ['list', [['tcmt', 'x', ['int', 1]]]])):
        for kind in ('tcmt', 'cmt'):
            yield {'v': [kind, 'words of the comment', ['sub', base, 'plain', inner]], 'width': 30, 'ribbon': 30, 'indent': 4}
            yield {'v': ['list', [[kind, 'words of the comment', ['sub', base, 'plain', inner]], ['int', 0]]], 'width': 30, 'ribbon': 30, 'indent': 4}
    yield {'v': ['tuple', [['cmt', 'x', ['int', 1]]]], 'width': 79, 'ribbon': 71, 'indent': 4}          # D5
    # a call whose sole container argument carries the comment, under a depth limit (hugging must not depend on the wrapper)
    nested = ['list', [['list', [['int', 1]]]]]
    for fn in ('box', 'alt'):
        for kind in ('cmt', 'tcmt'):
            for d in (1, 2, 3, 4):
                yield {'v': ['call', fn, [[kind, 'c', nested]], []], 'width': 79, 'ribbon': 79, 'indent': 4, 'depth': d}
                yield {'v': ['list', [['call', fn, [[kind, 'c', ['dict', [[['str', 'k'], nested]]]]], []]]], 'width': 30, 'ribbon': 30, 'indent': 4, 'depth': d}
    # comments on the values held by standard-library containers
    c1 = ['cmt', 'first value', ['list', [['int', 1], ['int', 2]]]]
    c2 = ['tcmt', 'trailing on a list', ['list', [['int', 3]]]]
    c3 = ['cmt', 'a scalar', ['int', 4]]
    for w in (79, 16):
        for node in (['call', 'deque', [c1, c3, c2], []], ['call', 'odict', [], [['a', c1], ['b', c3]]], ['call', 'ddict', [], [['a', c2], ['b', c1]]],
                     ['call', 'mproxy', [], [['a', c3], ['b', c2]]], ['call', 'chainmap', [], [['a', c1], ['b', c3]]], ['call', 'exc', [c3, c1], []]):
            yield {'v': node, 'width': w, 'ribbon': w, 'indent': 4}
            yield {'v': ['list', [['cmt', 'on the container', node], ['int', 0]]], 'width': w, 'ribbon': w, 'indent': 4}
            yield {'v': ['dict', [[['str', 'k'], ['cmt', 'as a dict value', node]]]], 'width': w, 'ribbon': w, 'indent': 2, 'sort': True}
    # comment lines that begin with whitespace and end in a word
    for text in (' lead word', '   two words', 'first\n  indented last', '\tx y'):
        for w in (79, 8):
            yield {'v': ['list', [['cmt', text, ['int', 1]], ['tcmt', text, ['list', [['int', 2]]]]]], 'width': w, 'ribbon': w, 'indent': 4}
            yield {'v': ['dict', [[['cmt', text, ['str', 'k']], ['cmt', text, ['int', 1]]]]], 'width': w, 'ribbon': w, 'indent': 4}
    # a struct sequence (sole tuple argument, hugged) carrying a trailing comment
    for w in (79, 15):
        yield {'v': ['tcmt', 'checked by hand', ['call', 'tsize', [['int', 80], ['int', 24]], []]], 'width': w, 'ribbon': w, 'indent': 4}
        yield {'v': ['list', [['tcmt', 'checked by hand', ['call', 'tsize', [['int', 80], ['int', 24]], []]], ['cmt', 'above', ['call', 'tsize', [['int', 1], ['int', 2]], []]]]], 'width': w, 'ribbon': w, 'indent': 4}
    # namedtuples / SimpleNamespaces carrying a trailing comment themselves (and commented fields)
    for w in (79, 15):
        for kind in ('nt', 'ns'):
            node = ['call', kind, [], [['a', ['cmt', 'field a', ['int', 1]]], ['b', ['list', [['int', 2]]]]]]
            yield {'v': ['tcmt', 'after the fields', node], 'width': w, 'ribbon': w, 'indent': 4}
            yield {'v': ['list', [['tcmt', 'after the fields', node], ['cmt', 'above', ['call', kind, [], [['a', ['int', 0]], ['b', ['tcmt', 'inner trailing', ['list', [['int', 1]]]]]]]]]], 'width': w, 'ribbon': w, 'indent': 4}
        yield {'v': ['tcmt', 'empty namespace', ['call', 'ns', [], []]], 'width': w, 'ribbon': w, 'indent': 4}
    # sort_dict_keys with comments on keys (a comment does not change where a key sorts) and on values
    for w in (79, 12):
        two = lambda k, i: ['cmt', 'above %d' % i, ['tcmt', 'after %d' % i, k]]
        yield {'v': ['dict', [[two(['tuple', [['int', 2], ['int', 0]]], 1), ['int', 1]], [['tuple', [['int', 1], ['int', 5]]], ['int', 2]], [two(['tuple', [['int', 3]]], 2), ['int', 3]],
                              [['tcmt', 'only after', ['tuple', [['int', 0], ['int', 9]]]], ['int', 4]]]],
               'width': w, 'ribbon': w, 'indent': 4, 'sort': True}
        yield {'v': ['dict', [[two(['str', 'b'], 1), ['int', 1]], [['str', 'a'], ['int', 2]], [two(['str', 'c'], 2), ['int', 3]], [['str', 'aa'], ['int', 0]]]],
               'width': w, 'ribbon': w, 'indent': 4, 'sort': True}
        yield {'v': ['dict', [[['cmt', 'note b', ['str', 'b']], ['int', 1]], [['str', 'a'], ['int', 2]], [['cmt', 'note c', ['str', 'c']], ['cmt', 'val', ['int', 3]]], [['str', 'aa'], ['int', 0]]]],
               'width': w, 'ribbon': w, 'indent': 4, 'sort': True}
        yield {'v': ['list', [['dict', [[['cmt', 'three', ['int', 3]], ['int', 1]], [['int', 1], ['tcmt', 'tc', ['list', [['int', 2]]]]], [['cmt', 'two', ['int', 2]], ['int', 0]]]]]],
               'width': w, 'ribbon': w, 'indent': 2, 'sort': True}
        yield {'v': ['sub', 'dict', 'plain', ['dict', [[['cmt', 'k', ['tuple', [['int', 2], ['int', 1]]]], ['int', 1]], [['tuple', [['int', 1], ['int', 9]]], ['int', 2]]]]],
               'width': w, 'ribbon': w, 'indent': 4, 'sort': True}
    # call-style printers: the hugged sole list / dict / tuple argument carries the comment itself; comments only on
    # keyword arguments of a call that would fit on one line; comments on positional and keyword arguments alike
    small = {'list': ['list', [['int', 1], ['int', 2]]], 'dict': ['dict', [[['str', 'k'], ['int', 1]]]], 'tuple': ['tuple', [['int', 1]]]}
    for fn in ('box', 'alt'):
        for w in (79, 20):
            for kind in ('cmt', 'tcmt'):
                for arg in small.values():
                    yield {'v': ['call', fn, [[kind, 'note on the argument', arg]], []], 'width': w, 'ribbon': w, 'indent': 4}
                    yield {'v': ['list', [['call', fn, [[kind, 'note', arg]], []], ['int', 0]]], 'width': w, 'ribbon': w, 'indent': 4}
                yield {'v': ['call', fn, [], [['a', [kind, 'c', ['int', 1]]]]], 'width': w, 'ribbon': w, 'indent': 4}
                yield {'v': ['call', fn, [['int', 0]], [['a', ['int', 1]], ['b', [kind, 'c', ['int', 2]]]]], 'width': w, 'ribbon': w, 'indent': 4}
                yield {'v': ['call', fn, [[kind, 'p', ['int', 0]]], [['a', ['cmt', 'k', small['list']]]]], 'width': w, 'ribbon': w, 'indent': 4}
    yield {'v': ['cmt', 'a\n\nb', ['int', 1]], 'width': 79, 'ribbon': 71, 'indent': 4}                  # D6
    yield {'v': ['list', [['cmt', 'a\n\nb', ['int', 1]]]], 'width': 79, 'ribbon': 71, 'indent': 4}
    yield {'v': ['dict', [[['cmt', 'key c', ['str', 'k']], ['cmt', 'val c1 c2', ['list', [['cmt', 'in', ['int', 1]]]]]]]],
           'width': 20, 'ribbon': 20, 'indent': 2}
    yield {'v': ['tcmt', 'tr ail', ['cmt', 'top', ['list', [['tcmt', 'nope', ['int', 1]]]]]], 'width': 30, 'ribbon': 30, 'indent': 4}
    deep = ['dict', [[['str', 'a'], ['cmt', 'a comment long enough to go above the value', ['list', [['int', 1], ['list', [['int', 2], ['list', [['int', 3]]]]]]]]]]]
    for d in (1, 2, 3, 4):
        for w in (20, 79):
            yield {'v': deep, 'width': w, 'ribbon': w, 'indent': 4, 'depth': d}


def decorate(tree, decos):
    """decos: [(node number, kind, text)]; at most one wrapper of each kind per node"""
    paths = list(_paths(tree))
    chosen = {}
    for num, kind, text in decos:
        key = (paths[num % len(paths)], kind)
        chosen.setdefault(key, text)
    r = tree
    for (path, kind), text in sorted(chosen.items(), key=lambda kv: (-len(kv[0][0]), repr(kv[0]))):
        r = _wrap_at(r, path, kind, text)
    return r


def strategy(tier):
    S = values.strategies()
    st = S['st']
    text = gens.comment_text(S)
    leaf = st.one_of(S['leaf'], S['leaf'], gens.call_strategy(S, arg=S['leaf']))

    def ext(ch):
        return st.one_of(
            st.lists(ch, max_size=4).map(lambda xs: ['list', xs]),
            st.lists(ch, max_size=3).map(lambda xs: ['tuple', xs]),
            st.lists(S['hashable'], max_size=3).map(lambda xs: ['set', xs]),
            st.lists(S['hashable'], max_size=3).map(lambda xs: ['fset', xs]),
            st.lists(st.tuples(S['hashable'], ch).map(list), max_size=4).map(lambda kv: ['dict', kv]),
            st.tuples(st.sampled_from(['box', 'alt']), st.lists(ch, max_size=3),
                      gens.named_values(st, ['a', 'b', 'kw'], ch, 2)).map(
                lambda p: ['call', p[0], p[1], p[2]]),
            # standard-library containers and call-like values holding (possibly commented) values
            st.lists(ch, max_size=3).map(lambda xs: ['call', 'deque', xs, []]),
            st.lists(ch, max_size=2).map(lambda xs: ['call', 'exc', xs, []]),
            st.tuples(S['leaf'], S['leaf']).map(lambda p: ['call', 'tsize', list(p), []]),
            st.tuples(st.sampled_from(['odict', 'ddict', 'mproxy', 'chainmap']), st.lists(ch, max_size=3)).map(
                lambda p: ['call', p[0], [], [[n, x] for n, x in zip(['a', 'b', 'kw'], p[1])]]),
            # namedtuples and SimpleNamespaces (printed as calls with keyword arguments; their printers take a trailing comment)
            st.tuples(ch, ch).map(lambda p: ['call', 'nt', [], [['a', p[0]], ['b', p[1]]]]),
            st.lists(ch, max_size=2).map(lambda xs: ['call', 'ns', [], [[n, x] for n, x in zip(['a', 'b'], xs)]]),
            # instances of subclasses of the containers (same printers; empty ones take the call path)
            st.tuples(st.sampled_from(['plain', 'repr']), st.lists(ch, max_size=2)).map(lambda p: ['sub', 'list', p[0], ['list', p[1]]]),
            st.tuples(st.sampled_from(['plain', 'str']), st.lists(ch, max_size=2)).map(lambda p: ['sub', 'tuple', p[0], ['tuple', p[1]]]),
            st.tuples(st.sampled_from(['plain', 'repr']), st.lists(st.tuples(S['hashable'], ch).map(list), max_size=2)).map(
                lambda p: ['sub', 'dict', p[0], ['dict', p[1]]]),
            st.lists(S['hashable'], max_size=2).map(lambda xs: ['sub', 'set', 'plain', ['set', xs]]),
        )
    tree = st.recursive(leaf, ext, max_leaves=8)
    decos = st.lists(st.tuples(st.integers(0, 40), st.sampled_from(['cmt', 'cmt', 'tcmt']), text).map(list), min_size=1, max_size=5)
    return st.fixed_dictionaries({
        'v': st.tuples(tree, decos).map(lambda p: decorate(p[0], p[1])),
        'width': st.one_of(st.integers(1, 79), st.sampled_from([1, 2, 79])),
        'ribbon': st.one_of(st.just(None), st.integers(1, 79)), 'indent': st.sampled_from([1, 2, 4, 8]),
        'depth': st.sampled_from([None, None, 1, 2, 3]), 'sort': st.sampled_from([False, False, True]),
    }).map(lambda c: dict(c, ribbon=c['ribbon'] or c['width']))


# ---------------------------------------------------------------------------

def reference_words(r, out, dropped):
    """pre-order: node comment words, children, trailing comment words"""
    t = r[0]
    cm = tc = None
    while t in ('cmt', 'tcmt'):
        # the outermost wrapper of each kind wins? no: unwrap_comments keeps the innermost of each kind
        if t == 'cmt':
            cm = r[1]
        else:
            tc = r[1]
        r = r[2]
        t = r[0]
    if cm:
        out.append(cm.split())
    base = t
    if t == 'sub':
        base = {'frozenset': 'fset'}.get(r[1], r[1])
        r = r[3]
        t = r[0]
    if t in ('list', 'tuple', 'set', 'fset'):
        for x in r[1]:
            reference_words(x, out, dropped)
    elif t == 'dict':
        for k, v in r[1]:
            reference_words(k, out, dropped)
            reference_words(v, out, dropped)
    elif t == 'call':
        if r[1] in ('nt', 'ns', 'tsize'):
            base = 'call:' + r[1]       # namedtuple / SimpleNamespace / struct sequence: printers that take a trailing comment
        if r[1] == 'tsize':
            # the struct-sequence printer names every field in a comment of its own; a field that carries a comment()
            # already keeps its own (of two stacked comments the inner one is shown)
            for name, a in zip(('columns', 'lines'), list(r[2]) + [['none'], ['none']]):
                x = a
                has_cmt = False
                while x[0] in ('cmt', 'tcmt'):
                    has_cmt = has_cmt or x[0] == 'cmt'
                    x = x[2]
                if not has_cmt:
                    out.append([name])
        for a in r[2]:
            reference_words(a, out, dropped)
        for _, a in r[3]:
            reference_words(a, out, dropped)
    if tc:
        if base in SUPPORTS_TRAILING:
            out.append(tc.split())
        else:
            dropped.append(tc)


def comment_tokens(text):
    words = []
    src = '(' + text + '\n)'
    for tok in tokenize.generate_tokens(io.StringIO(src).readline):
        if tok.type == tokenize.COMMENT:
            words.extend(tok.string[1:].split())
    return words


class _Canon(ast.NodeTransformer):
    def visit_Set(self, node):
        self.generic_visit(node)
        node.elts = sorted(node.elts, key=ast.dump)
        return node

    def visit_Call(self, node):
        self.generic_visit(node)
        if isinstance(node.func, ast.Name) and node.func.id == 'frozenset' and len(node.args) == 1 and isinstance(node.args[0], ast.List):
            node.args[0].elts = sorted(node.args[0].elts, key=ast.dump)
        return node


def canon_dump(text):
    tree = ast.parse('(' + text + '\n)', mode='eval')
    return ast.dump(_Canon().visit(tree))


def _comment_inside_key(r):
    t = r[0]
    if t in ('cmt', 'tcmt'):
        return _comment_inside_key(r[2])
    if t == 'dict':
        for k, v in r[1]:
            kk = k
            while kk[0] in ('cmt', 'tcmt'):
                kk = kk[2]
            if '"cmt"' in core.canonical(kk) or '"tcmt"' in core.canonical(kk):
                return True
            if _comment_inside_key(kk) or _comment_inside_key(v):
                return True
        return False
    if t in ('list', 'tuple', 'set', 'fset'):
        return any(_comment_inside_key(x) for x in r[1])
    if t == 'sub':
        return _comment_inside_key(r[3])
    if t == 'call':
        return any(_comment_inside_key(a) for a in r[2]) or any(_comment_inside_key(a) for _, a in r[3])
    return False


def _std_children(v):
    import collections
    import functools
    if isinstance(v, collections.deque):
        return list(v)
    if isinstance(v, _types.MappingProxyType):
        return list(v.values())
    if isinstance(v, collections.ChainMap):
        return [x for m in v.maps for x in m.values()]
    if isinstance(v, BaseException):
        return list(v.args)
    if isinstance(v, functools.partial):
        return list(v.args) + list(v.keywords.values())
    return None


def _keys_comparable(v):
    from .. import eqv
    if isinstance(v, dict):
        ks = list(v.keys())
        if len(ks) > 1 and not eqv.mutually_comparable(ks):
            return False
        return all(_keys_comparable(k) and _keys_comparable(x) for k, x in v.items())
    if isinstance(v, (list, tuple, set, frozenset)):
        return all(_keys_comparable(x) for x in v)
    if isinstance(v, vtypes.Box):
        return all(_keys_comparable(x) for x in v.args) and all(_keys_comparable(x) for x in v.kwargs.values())
    if isinstance(v, _types.SimpleNamespace):
        return all(_keys_comparable(x) for x in v.__dict__.values())
    kids = _std_children(v)
    if kids is not None:
        return all(_keys_comparable(x) for x in kids)
    return True


def n_entries(v):
    from prettyprinter.prettyprinter import unwrap_comments
    v = unwrap_comments(v)[0]
    if isinstance(v, (list, tuple, set, frozenset)):
        return len(v) + sum(n_entries(x) for x in v)
    if isinstance(v, dict):
        return len(v) + sum(n_entries(k) + n_entries(x) for k, x in v.items())
    if isinstance(v, vtypes.Box):
        return sum(n_entries(x) for x in v.args) + sum(n_entries(x) for x in v.kwargs.values())
    if isinstance(v, _types.SimpleNamespace):
        return sum(n_entries(x) for x in v.__dict__.values())
    kids = _std_children(v)
    if kids is not None:
        return sum(n_entries(x) for x in kids)
    return 0


def has_set(r):
    t = r[0]
    if t in ('cmt', 'tcmt'):
        return has_set(r[2])
    if t == 'sub':
        return has_set(r[3])
    if t in ('set', 'fset'):
        return len(r[1]) > 1 or any(has_set(x) for x in r[1])
    if t in ('list', 'tuple'):
        return any(has_set(x) for x in r[1])
    if t == 'dict':
        return any(has_set(k) or has_set(v) for k, v in r[1])
    if t == 'call':
        return any(has_set(a) for a in r[2]) or any(has_set(a) for _, a in r[3])
    return False


def oracle(case):
    r = values.dedupe(case['v'])
    cfg = {'width': case['width'], 'ribbon_width': case['ribbon'], 'indent': case['indent']}
    if case.get('depth') is not None:
        cfg['depth'] = case['depth']      # the same limit for the commented and the stripped value
    if case.get('sort'):
        cfg['sort_dict_keys'] = True      # a comment on a key does not change where the key sorts
    v = values.build(r)
    plain_r = values.strip_comments(r)
    plain = values.build(plain_r)
    if n_entries(v) != n_entries(plain):
        return core.skip('key-collision')
    if case.get('sort') and not _keys_comparable(plain):
        return core.skip('sorted-keys-not-comparable')      # the order of keys that cannot be compared is address-based
    if case.get('sort') and _comment_inside_key(r):
        # a comment object INSIDE a tuple / frozenset key makes that key incomparable with the others (the comment on the
        # key itself is looked through since D34): left alone, see DESIGN
        return core.skip('sorted-key-holds-comment-inside')
    if case.get('depth') is not None and _commented_str_key(r):
        # a str/bytes dict key is printed in the dict's own context on purpose (it is not a nesting level);
        # a commented one goes through the generic path - whether it counts as a level is left open (C11 tolerance 1)
        return core.skip('depth+commented-str-key')
    words, dropped = [], []
    reference_words(r, words, dropped)
    p = values.pp(v, **cfg)
    if p.exc is not None:
        return core.viol('pformat-raised', '%r' % (p.exc,))
    if p.fallback_warnings():
        return core.viol('degraded-to-repr', p.fallback_warnings()[0][:500])
    # (a commented dict value is rendered twice, so the warning may repeat: only presence is judged)
    if dropped and not p.warnings and case.get('depth') is None:
        return core.viol('trailing-comment-lost-silently', 'no warning for %d trailing comments on nodes whose printer does not take them\n%s' % (len(dropped), p.text[:400]))
    q = values.pp(plain, **cfg)
    if q.exc is not None or q.fallback_warnings():
        return core.skip('plain-value-fails')   # not this property's business
    try:
        d1 = canon_dump(p.text)
    except SyntaxError as e:
        return core.viol('not-an-expression', '%r\n%s' % (e, p.text[:600]))
    try:
        d2 = canon_dump(q.text)
    except SyntaxError:
        return core.skip('plain-value-unparseable')     # the uncommented value itself prints wrongly: not this property's business
    if d1 != d2:
        return core.viol('syntax-tree-changed', 'commented output\n%s\nuncommented output\n%s' % (p.text[:700], q.text[:400]))
    if case.get('depth') is not None:
        # comments below the cut are cut off with their values: only the syntax tree is compared
        return core.ok(_nontrivial(r, top=True), ['depth-limited'])
    try:
        got = comment_tokens(p.text)
    except (tokenize.TokenError, SyntaxError) as e:
        return core.viol('not-tokenizable', repr(e))
    # The statement fixes the order of the words *of each comment*, not the relative placement of different
    # comments: (a) the multiset of all comment words is exactly the reference multiset (nothing lost, nothing
    # else inside or outside a comment), (b) every comment's words occur in order in the COMMENT-token stream.
    flat = [w for ws in words for w in ws]
    if sorted(got) != sorted(flat):
        return core.viol('comment-words-differ', 'expected words %r got %r\n%s' % (flat, got, p.text[:600]))
    for ws in words:
        it = iter(got)
        if not all(any(w == g for g in it) for w in ws):
            return core.viol('comment-word-order', 'words of one comment %r are not in order in %r\n%s' % (ws, got, p.text[:600]))
    if not has_set(r) and got != flat:
        labels_extra = ['placement-differs-from-preorder']
    else:
        labels_extra = []
    nontrivial = _nontrivial(r, top=True)
    labels = list(labels_extra)
    if dropped:
        labels.append('unsupported-trailing')
    if any('\n' in x for x in _texts(r)):
        labels.append('multiline-text')
    return core.ok(nontrivial, labels)


def _commented_str_key(r):
    t = r[0]
    if t in ('cmt', 'tcmt'):
        return _commented_str_key(r[2])
    if t == 'sub':
        return _commented_str_key(r[3])
    if t in ('list', 'tuple', 'set', 'fset'):
        return any(_commented_str_key(x) for x in r[1])
    if t == 'dict':
        for k, v in r[1]:
            kk = k
            wrapped = False
            while kk[0] in ('cmt', 'tcmt'):
                kk = kk[2]
                wrapped = True
            if wrapped and kk[0] in ('str', 'bytes'):
                return True
            if _commented_str_key(k) or _commented_str_key(v):
                return True
        return False
    if t == 'call':
        return any(_commented_str_key(a) for a in r[2]) or any(_commented_str_key(a) for _, a in r[3])
    return False


def _texts(r):
    t = r[0]
    if t == 'sub':
        yield from _texts(r[3])
        return
    if t in ('cmt', 'tcmt'):
        yield r[1]
        yield from _texts(r[2])
    elif t in ('list', 'tuple', 'set', 'fset'):
        for x in r[1]:
            yield from _texts(x)
    elif t == 'dict':
        for k, v in r[1]:
            yield from _texts(k)
            yield from _texts(v)
    elif t == 'call':
        for a in r[2]:
            yield from _texts(a)
        for _, a in r[3]:
            yield from _texts(a)


def _nontrivial(r, top):
    t = r[0]
    if t == 'sub':
        return _nontrivial(r[3], top)
    if t in ('cmt', 'tcmt'):
        if not top and (len(r[1].split()) >= 2 or '\n' in r[1]):
            return True
        return _nontrivial(r[2], top)
    if t in ('list', 'tuple', 'set', 'fset'):
        return any(_nontrivial(x, False) for x in r[1])
    if t == 'dict':
        return any(_nontrivial(k, False) or _nontrivial(v, False) for k, v in r[1])
    if t == 'call':
        return any(_nontrivial(a, False) for a in r[2]) or any(_nontrivial(a, False) for _, a in r[3])
    return False
