"""C18 - all entry points and configuration layers agree."""
import contextlib
import io
import re

from .. import core, values

ID = 'C18'
LEVEL = 'exploration'
RULE = ('(any step may run in a helper thread that is started and joined at once: the defaults are process-wide) ' +
        'case = history over the global default configuration: set_default_config(**subset of {width, ribbon_width, '
        'depth, max_seq_len, sort_dict_keys}) / get_default_config() / print(value, entry point, explicitly passed subset '
        'of {indent, width, ribbon_width, depth, max_seq_len, sort_dict_keys}, end string) with entry point in {pformat, '
        'pprint to a StringIO, pprint to a redirected sys.stdout, cpprint with colour off, cpprint with colour on (SGR '
        'stripped), a PrettyPrinter object constructed earlier in the history, pretty_repr of a registered type, PrettyPrinter(**explicit).pformat, PrettyPrinter(**explicit).pprint, one PrettyPrinter(stream, settings by keyword or in the positional order of pprint.PrettyPrinter) used for both methods, pprint / cpprint / PrettyPrinter writing to a sink that is falsy while empty, pretty_repr nested in pretty_repr through an object printed with repr(), pretty_repr of an object whose repr was taken before its class got a printer / after a call that raised, '
        'pformat / pprint with indent, width, depth passed positionally, pretty_repr of an instance of a subclass that only inherits the printer, pretty_repr as the very first use of a fresh class (or of a subclass of it) whose '
        'printer is registered by name}. '
        'Exhaustive: every single setting explicit-vs-default x every entry point after each single-setting '
        'set_default_config; random: Hypothesis histories of up to 10 ops. Model: a dict mirrors the defaults; reference '
        'text = pformat(value, **every effective setting passed explicitly); every entry point must produce exactly that '
        '(+ end); set_default_config returns and get_default_config reports exactly the model. non-trivial = a print with '
        '>= 1 explicit and >= 1 defaulted setting after a set_default_config whose change affects that output; distinct '
        'by case hash')
ASSUMPTIONS = ['pformat with every setting passed explicitly is the reference (its own correctness is C01-C11)',
               'defaults are restored through the public API after every history']
BUDGET = {'quick': {'random': 4000, 'shards': 16}, 'thorough': {'random': 150000, 'shards': 16}}

DOMAIN = {
    'indent': [1, 2, 4, 8],
    'width': [5, 20, 40, 79],
    'ribbon_width': [5, 20, 71],
    'depth': [0, 1, 2, None],
    'max_seq_len': [1, 2, 1000, None],
    'sort_dict_keys': [False, True],
}
DEFAULTABLE = ['width', 'ribbon_width', 'depth', 'max_seq_len', 'sort_dict_keys']
ENTRIES = ['pformat', 'pprint_stream', 'pprint_stdout', 'cpprint_off', 'cpprint_on', 'pretty_repr', 'PP.pformat', 'PP.pprint',
           'pformat_positional', 'pprint_positional', 'pretty_repr_byname', 'pretty_repr_sub', 'pretty_repr_byname_sub', 'PP.one_object', 'PP.positional',
           'pretty_repr_nested', 'pprint_falsy_stream', 'cpprint_falsy_stream', 'PP.falsy_stream', 'pretty_repr_late', 'pretty_repr_after_raise']
VALUES = [
    ['dict', [[['str', 'b'], ['list', [['int', 1], ['int', 2], ['int', 3]]]], [['str', 'a'], ['tuple', [['str', 'x y'], ['none']]]], [['str', 'c'], ['int', 0]]]],
    ['list', [['list', [['list', [['int', 1], ['str', 'deep']]], ['int', 2]]], ['dict', [[['int', 2], ['int', 1]], [['int', 1], ['int', 2]]]], ['str', 'lorem ipsum dolor sit amet']]],
    ['tuple', [['int', 1]]],
    ['str', 'some words that need splitting at narrow widths'],
    ['set', [['int', 3], ['int', 1], ['int', 2]]],
    ['list', [['std', 'enum', 'Color', 'RED'], ['std', 'uuid', '0' * 32], ['sub', 'int', 'enum', ['int', 1]], ['cmt', 'note', ['float', 'nan']]]],
]
SGR = re.compile(r'\x1b\[[0-9;]*m')
_setup = {}


def _types():
    if 'cls' not in _setup:
        from prettyprinter import register_pretty, pretty_call, pretty_repr

        class CfgBox:
            __repr__ = pretty_repr

            def __init__(self, v):
                self.v = v
        CfgBox.__module__ = 'ppv_cfg'
        CfgBox.__qualname__ = 'CfgBox'

        @register_pretty(CfgBox)
        def _p(value, ctx):
            return pretty_call(ctx, CfgBox, value.v)
        _setup['cls'] = CfgBox

        class CfgSub(CfgBox):
            """inherits both __repr__ = pretty_repr and the registered printer"""
        CfgSub.__module__ = 'ppv_cfg'
        CfgSub.__qualname__ = 'CfgSub'
        _setup['sub'] = CfgSub

        class Holder:
            """no printer: its repr asks its content for repr() (so a registered object inside re-enters pretty_repr)"""

            def __init__(self, v):
                self.v = v

            def __repr__(self):
                return 'Holder(%r)' % (self.v,)
        _setup['holder'] = Holder
    return _setup['cls']


_byname_counter = [0]


def _fresh_byname_box(v, subclass=False):
    from prettyprinter import register_pretty, pretty_call, pretty_repr
    _byname_counter[0] += 1
    name = 'ByName%d' % _byname_counter[0]
    cls = type(name, (), {'__repr__': pretty_repr, '__init__': lambda self, v: setattr(self, 'v', v)})
    cls.__module__ = 'ppv_cfg_byname'
    cls.__qualname__ = 'ByNameBox'          # printed name must not depend on the counter
    key = 'ppv_cfg_byname.ByNameBox'
    if subclass:
        # the instance is of a subclass that only inherits the (by-name) printer and the __repr__
        base = cls
        cls = type(name + 'Sub', (base,), {})
        cls.__module__ = 'ppv_cfg_byname'
        cls.__qualname__ = 'ByNameSub'

    @register_pretty(key)
    def _p(value, ctx):
        return pretty_call(ctx, 'ppv_cfg_byname.ByNameBox', value.v)
    return cls(v)


_late_counter = [0]


def _late_box(v, entry):
    """a fresh class with __repr__ = pretty_repr and an instance of it that has a history: 'late' - repr() was taken
    (with the documented warning) BEFORE the class got its printer; 'after_raise' - an earlier repr() raised because the
    printer returned a non-document"""
    import warnings
    from prettyprinter import register_pretty, pretty_call, pretty_repr
    _late_counter[0] += 1
    cls = type('LateBox', (), {'__repr__': pretty_repr, '__init__': lambda self, v: setattr(self, 'v', v)})
    cls.__module__ = 'ppv_cfg_late'
    cls.__qualname__ = 'LateBox'
    obj = cls(v)
    state = {'bad': entry == 'pretty_repr_after_raise'}
    if entry == 'pretty_repr_late':
        with warnings.catch_warnings():
            warnings.simplefilter('ignore')
            repr(obj)

    @register_pretty(cls)
    def _p(value, ctx):
        if state['bad']:
            return 5
        return pretty_call(ctx, 'ppv_cfg_late.LateBox', value.v)
    if state['bad']:
        try:
            repr(obj)
        except ValueError:
            pass
        state['bad'] = False
    return obj


def enumerate_cases(tier):
    for vi in range(len(VALUES) if tier == 'thorough' else 2):
        for key in DEFAULTABLE:
            for newv in DOMAIN[key]:
                for entry in ENTRIES:
                    for explicit_key in list(DOMAIN) + [None]:
                        explicit = {}
                        if explicit_key is not None:
                            explicit[explicit_key] = DOMAIN[explicit_key][1]
                        yield {'ops': [['set', {key: newv}], ['get'], ['print', entry, vi, explicit, '\n'],
                                       ['print', 'pformat', vi, {}, '']]}
                        if explicit_key is None or explicit_key == 'width':
                            # the defaults are process-wide: set in one thread, read and used in another (helper threads
                            # are started and joined at once, so the calls still run one after another)
                            for threaded in ([0], [1, 2], [0, 3]):
                                yield {'ops': [['set', {key: newv}], ['get'], ['print', entry, vi, explicit, '\n'],
                                               ['print', 'pformat', vi, {}, '']], 'threaded': threaded}


def fixed_cases():
    yield {'ops': [['mkpp', {'width': 40}], ['set', {'max_seq_len': 2, 'depth': 1}], ['usepp', 0, ''], ['set', {'width': 5}], ['usepp', 1, ''], ['get']]}
    yield {'ops': [['print', 'PP.pformat', 0, {'width': 5}, '']]}       # D16
    # a width below the ribbon in the defaults, a print without explicit settings, then the defaults read and a wider print
    for entry in ('pformat', 'pprint_stream', 'cpprint_off', 'PP.pformat', 'pretty_repr'):
        yield {'ops': [['set', {'width': 20}], ['print', entry, 1, {}, ''], ['get'], ['print', entry, 1, {'width': 100}, ''], ['get'],
                       ['set', {'width': 79}], ['print', entry, 1, {}, ''], ['get']]}
        yield {'ops': [['set', {'ribbon_width': 10}], ['print', entry, 0, {'width': 5}, ''], ['get'], ['print', 'pformat', 0, {}, '']]}
    yield {'ops': [['set', {'depth': 1, 'max_seq_len': 2}], ['print', 'pretty_repr', 1, {}, ''], ['set', {'depth': None}], ['get'],
                   ['print', 'cpprint_on', 1, {'indent': 2}, 'END']]}


def strategy(tier):
    from hypothesis import strategies as st

    def subset(keys):
        return st.fixed_dictionaries({}, optional={k: st.sampled_from(DOMAIN[k]) for k in keys})
    op = st.one_of(
        subset(list(DOMAIN)).map(lambda d: ['mkpp', d]),
        st.tuples(st.integers(0, len(VALUES) - 1), st.sampled_from(['\n', ''])).map(lambda p: ['usepp', p[0], p[1]]),
        subset(DEFAULTABLE).map(lambda d: ['set', d]),
        st.just(['get']),
        st.tuples(st.sampled_from(ENTRIES), st.integers(0, len(VALUES) - 1), subset(list(DOMAIN)),
                  st.sampled_from(['\n', '', 'END', '\n\n'])).map(lambda p: ['print', p[0], p[1], p[2], p[3]]),
        st.tuples(st.sampled_from(ENTRIES), st.integers(0, len(VALUES) - 1), subset(list(DOMAIN)),
                  st.sampled_from(['\n', ''])).map(lambda p: ['print', p[0], p[1], p[2], p[3]]),
    )
    return st.fixed_dictionaries({'ops': st.lists(op, min_size=1, max_size=10),
                                  'threaded': st.one_of(st.just([]), st.lists(st.integers(0, 9), max_size=4, unique=True).map(sorted)),
                                  'compact': st.sampled_from([None, None, True, False])})


def run_entry(entry, value, explicit, end, compact=None):
    """-> text produced by the entry point (including end where the entry point writes one)"""
    import prettyprinter as pp
    import colorful
    if compact is not None:
        # the stdlib-compatible `compact` argument is accepted by every entry point and changes nothing
        explicit = dict(explicit, compact=compact)
    if entry == 'pformat':
        return pp.pformat(value, **explicit) + end
    if entry in ('pformat_positional', 'pprint_positional'):
        # the documented positional order: pformat(object, indent, width, depth) / pprint(object, stream, indent, width, depth);
        # a prefix of the explicit settings goes positionally, the rest by keyword
        rest = dict(explicit)
        pos = []
        for name in ('indent', 'width', 'depth'):
            if name in rest:
                pos.append(rest.pop(name))
            else:
                break
        if entry == 'pformat_positional':
            return pp.pformat(value, *pos, **rest) + end
        s = io.StringIO()
        pp.pprint(value, s, *pos, end=end, **rest)
        return s.getvalue()
    if entry == 'pprint_stream':
        s = io.StringIO()
        pp.pprint(value, stream=s, end=end, **explicit)
        return s.getvalue()
    if entry == 'pprint_stdout':
        s = io.StringIO()
        with contextlib.redirect_stdout(s):
            pp.pprint(value, end=end, **explicit)
        return s.getvalue()
    if entry in ('cpprint_off', 'cpprint_on'):
        s = io.StringIO()
        old = colorful.colorful.colormode
        try:
            if entry == 'cpprint_off':
                colorful.disable()
            else:
                colorful.use_true_colors()
            pp.cpprint(value, stream=s, end=end, **explicit)
        finally:
            colorful.colorful.colormode = old
        out = s.getvalue()
        return SGR.sub('', out) if entry == 'cpprint_on' else out
    if entry == 'PP.pformat':
        return pp.PrettyPrinter(**explicit).pformat(value) + end
    if entry == 'PP.pprint':
        # (only `stream` besides the settings: `end` is not a PrettyPrinter setting; pprint's default end is a newline)
        s = io.StringIO()
        pp.PrettyPrinter(stream=s, **explicit).pprint(value)
        out = s.getvalue()
        return out[:-1] + end if out.endswith('\n') else out + '<missing default newline>'
    if entry.endswith('falsy_stream'):
        # a sink that is falsy while empty (a list-backed capture buffer with __len__)
        class Sink:
            def __init__(self):
                self.chunks = []

            def write(self, text):
                self.chunks.append(text)

            def __len__(self):
                return len(self.chunks)
        sink = Sink()
        fake_stdout = io.StringIO()
        with contextlib.redirect_stdout(fake_stdout):
            if entry == 'pprint_falsy_stream':
                pp.pprint(value, stream=sink, end=end, **explicit)
            elif entry == 'cpprint_falsy_stream':
                old = colorful.colorful.colormode
                try:
                    colorful.disable()
                    pp.cpprint(value, stream=sink, end=end, **explicit)
                finally:
                    colorful.colorful.colormode = old
            else:
                pp.PrettyPrinter(stream=sink, end=end, **explicit).pprint(value)
        if fake_stdout.getvalue():
            return '<written to sys.stdout instead of the given stream: %r>' % fake_stdout.getvalue()[:100]
        return ''.join(sink.chunks)
    if entry in ('PP.one_object', 'PP.positional'):
        # ONE PrettyPrinter object, constructed with the stream and the settings (keywords, or the positional order of
        # pprint.PrettyPrinter: indent, width, depth, stream), serves both methods
        s = io.StringIO()
        if entry == 'PP.one_object':
            obj = pp.PrettyPrinter(stream=s, **explicit)
        else:
            rest = dict(explicit)
            pos = []
            for name in ('indent', 'width', 'depth'):
                if name in rest:
                    pos.append(rest.pop(name))
                else:
                    break
            if len(pos) == 3:
                obj = pp.PrettyPrinter(*pos, s, **rest)
            else:
                obj = pp.PrettyPrinter(*pos, stream=s, **rest)
        text = obj.pformat(value)
        obj.pprint(value)
        out = s.getvalue()
        if out != text + '\n':
            return '<pprint wrote %r, pformat returned %r>' % (out[:200], text[:200])
        return text + end
    raise ValueError(entry)


def oracle(case):
    import prettyprinter as pp
    CfgBox = _types()
    stock = dict(pp.get_default_config())
    model = dict(stock)
    nontrivial = False
    changed = False
    stored_pp = None
    labels = set()
    def step(op):
        nonlocal nontrivial, changed, stored_pp
        if op[0] == 'set':
            before = dict(model)
            try:
                ret = pp.set_default_config(**op[1])
            except Exception as e:
                return core.viol('set_default_config-raised', repr(e))
            model.update(op[1])
            if model != before:
                changed = True
            if dict(ret) != model:
                return core.viol('set_default_config-return', 'returned %r, model %r' % (dict(ret), model))
            if dict(pp.get_default_config()) != model:
                return core.viol('defaults-differ', 'after %r: %r, model %r' % (op, dict(pp.get_default_config()), model))
        elif op[0] == 'mkpp':
            # a printer object constructed now and used later: its explicit settings stick, everything else
            # follows the defaults in force when it is USED
            stored_pp = (pp.PrettyPrinter(**op[1]), dict(op[1]))
        elif op[0] == 'usepp':
            if stored_pp is None:
                return None
            obj, explicit = stored_pp
            value = values.build(VALUES[op[1]])
            effective = dict(model)
            effective.update(explicit)
            try:
                ref = pp.pformat(value, **effective)
                got = obj.pformat(value)
            except Exception as e:
                return core.viol('entry-point-raised', 'stored PrettyPrinter(%r) raised %r' % (explicit, e))
            labels.add('stored-PrettyPrinter')
            if got != ref:
                return core.viol('entry-points-disagree', 'PrettyPrinter(%r) constructed earlier, used under defaults %r gave\n%r\nreference\n%r' % (
                    explicit, model, got[:500], ref[:500]))
            if changed:
                nontrivial = True
        elif op[0] == 'get':
            got = dict(pp.get_default_config())
            if got != model:
                return core.viol('get_default_config', 'reports %r, model %r' % (got, model))
        else:
            _, entry, vi, explicit, end = op
            value = values.build(VALUES[vi])
            if entry == 'pretty_repr':
                value = CfgBox(value)
                explicit = {}
            if entry == 'pretty_repr_sub':
                value = _setup['sub'](value)
                explicit = {}
            if entry in ('pretty_repr_late', 'pretty_repr_after_raise'):
                value = _late_box(value, entry)
                explicit = {}
            if entry == 'pretty_repr_nested':
                # registered > unregistered (printed through repr()) > registered: pretty_repr runs inside pretty_repr
                value = CfgBox(_setup['holder'](CfgBox(value)))
                explicit = {}
            byname_first = None
            if entry in ('pretty_repr_byname', 'pretty_repr_byname_sub'):
                # a fresh class whose printer is registered by name only; repr() is its very first use
                value = _fresh_byname_box(value, subclass=entry.endswith('_sub'))
                explicit = {}
                try:
                    byname_first = repr(value)
                except Exception as e:
                    return core.viol('entry-point-raised', 'pretty_repr (by-name registered type, first use) raised %r' % (e,))
            effective = dict(model)
            effective.update(explicit)
            try:
                ref = pp.pformat(value, **effective)
            except Exception as e:
                return core.viol('reference-print-raised', '%r with %r' % (e, effective))
            try:
                if entry in ('pretty_repr_byname', 'pretty_repr_byname_sub'):
                    got = byname_first
                    ref_cmp = ref
                elif entry in ('pretty_repr', 'pretty_repr_sub', 'pretty_repr_nested', 'pretty_repr_late', 'pretty_repr_after_raise'):
                    import warnings as _w
                    with _w.catch_warnings(record=True) as _ws:
                        _w.simplefilter('always')
                        got = repr(value)
                    if any('no pretty printer is registered' in str(x.message) for x in _ws):
                        return core.viol('pretty-repr-warned', 'repr() of an instance whose class has (inherits) a registered printer warned: %s' % str(_ws[0].message)[:200])
                    ref_cmp = ref
                else:
                    got = run_entry(entry, value, explicit, end, case.get('compact'))
                    ref_cmp = ref + end
            except Exception as e:
                return core.viol('entry-point-raised', '%s(%r) raised %r' % (entry, explicit, e))
            labels.add(entry)
            if got != ref_cmp:
                return core.viol('entry-points-disagree', '%s with explicit %r under defaults %r gave\n%r\nreference\n%r' % (
                    entry, explicit, model, got[:500], ref_cmp[:500]))
            if changed and (entry.startswith('pretty_repr') or (explicit and len(explicit) < len(DOMAIN))):
                eff_stock = dict(stock)
                eff_stock.update(explicit)
                if pp.pformat(value, **eff_stock) != ref:
                    nontrivial = True
        return None

    def in_thread(fn):
        # the same step in a helper thread that is started and joined at once (still one call after another)
        import threading
        box = {}

        def run():
            try:
                box['r'] = fn()
            except BaseException as e:      # re-raised in the calling thread
                box['e'] = e
        t = threading.Thread(target=run)
        t.start()
        t.join()
        if 'e' in box:
            raise box['e']
        return box.get('r')
    try:
        for i, op in enumerate(case['ops']):
            if i in (case.get('threaded') or ()):
                labels.add('op-in-helper-thread')
                res = in_thread(lambda: step(op))
            else:
                res = step(op)
            if res is not None:
                return res
    finally:
        pp.set_default_config(**{k: stock[k] for k in DEFAULTABLE})
    return core.ok(nontrivial, sorted(labels))
