"""C20 - concurrent printing from several threads is safe."""
import itertools
import warnings

from .. import core, sched

ID = 'C20'
LEVEL = 'exploration'
RULE = ('case = (programs of 2-3 threads, each 1-2 pformat calls on: an instance of a class whose printer is registered by '
        'name and not yet promoted (fresh class and key per case, so the first use happens in every schedule), an instance '
        'of a subclass of such a class, of a directly registered class, of an unregistered class, long strings that are split into '
        'words and measured (after a text of 300 other words has been printed in the process), one shared instance of a class with '
        '__repr__ = pretty_repr reached through the repr() of an unregistered holder, of a fresh struct-sequence '
        'look-alike (field names resolved and cached on first print), lists/dicts holding them, optionally with per-call width / '
        'ribbon settings that differ between the threads; '
        'schedule = list of (thread, number of package lines to run)). A deterministic scheduler built on sys.settrace '
        'pre-empts threads only at line boundaries inside the package; exactly one thread runs at a time. Exhaustive: ALL '
        'one-preemption schedules (thread A runs k lines, B runs to completion, A finishes; every k) for every ordered '
        'pair of programs; random: 2-4 preemptions over 2-3 threads drawn by Hypothesis, segment lengths biased to small '
        'values and to the lines at which the registration lookup runs (measured by a dry run). Oracle: results of a '
        'sequential run on identical fresh classes; every call returns exactly its sequential text and none raises. '
        'non-trivial = a pre-emption happened while the pre-empted thread was inside is_registered / register_pretty; '
        'distinct by case hash')
ASSUMPTIONS = ['interleavings are explored at package-line granularity under the GIL; switches inside a line or inside C code '
               '(functools.singledispatch internals) are not explored',
               'a controller timeout is a harness error (exit 2), never a violation']
BUDGET = {'quick': {'random': 1600, 'shards': 16}, 'thorough': {'random': 60000, 'shards': 16}}

KINDS = ['lazy', 'sub', 'direct', 'unreg', 'list-lazy', 'list-sub', 'dict-lazy', 'lazy2', 'subsub', 'seq', 'list-seq',
         'list-direct@12', 'list-lazy@9', 'list-sub@25', 'dict-lazy@7', 'list-direct@60', 'str@40', 'str2@30', 'list-str@40', 'sharedrepr', 'list-sharedrepr']
PAIRS = [
    (['lazy'], ['lazy']), (['list-lazy'], ['list-lazy']), (['sub'], ['lazy']), (['lazy'], ['sub']), (['sub'], ['sub']),
    (['list-sub'], ['list-lazy']), (['dict-lazy'], ['list-sub']), (['lazy', 'lazy'], ['sub']), (['subsub'], ['sub']),
    (['lazy'], ['lazy2']), (['direct'], ['lazy']), (['unreg'], ['list-lazy']), (['lazy'], ['unreg']),
    (['seq'], ['seq']), (['list-seq'], ['seq']), (['seq', 'lazy'], ['list-seq']),
    (['list-direct@12'], ['list-direct@40']), (['list-lazy@9', 'list-lazy@30'], ['list-sub@20']), (['dict-lazy@7'], ['list-seq@60']),
    (['str@40'], ['str2@40']), (['str@40'], ['str@40']), (['list-str@30'], ['str2@40']),
    (['sharedrepr'], ['sharedrepr']), (['list-sharedrepr'], ['sharedrepr', 'lazy']),
]
# long strings are split into words and measured while they are laid out; before such programs run, a text of many other
# words is printed (the process has printed unrelated things before)
STR = {'str': ' '.join('alpha%02d' % i for i in range(12)), 'str2': ' '.join('beta%02d' % i for i in range(12))}
FILLER = ' '.join('filler%03d' % i for i in range(300))
_uid = itertools.count()
_cache = {}


def fresh():
    """a fresh family of classes; printers return constant tags so results do not depend on the family"""
    from prettyprinter import register_pretty
    i = next(_uid)
    mod = 'ppvthr%d' % i

    def mk(name, bases, ns=None):
        c = type(name, bases, dict(ns or {}))
        c.__module__ = mod
        c.__qualname__ = name
        return c
    Lazy = mk('Lazy', ())
    Sub = mk('Sub', (Lazy,))
    SubSub = mk('SubSub', (Sub,))
    Lazy2 = mk('Lazy2', ())
    Direct = mk('Direct', ())
    Unreg = mk('Unreg', (), {'__repr__': lambda self: 'UNREG'})
    # a struct-sequence look-alike (tuple subclass with n_fields etc. and a keyword-style repr): its field names are
    # resolved from the repr and cached per class on first print - another lazily prepared piece of shared state
    def _seq_repr(self):
        return 'SeqLike(alpha=%r, beta=%r, gamma=%r)' % tuple(self)
    SeqLike = mk('SeqLike', (tuple,), {'n_fields': 3, 'n_sequence_fields': 3, 'n_unnamed_fields': 0, '__repr__': _seq_repr})
    SeqLike.__module__ = 'ppvseq'        # printed name must not depend on the family
    # one instance of a class with __repr__ = pretty_repr, shared by all threads and reached through the repr() of an
    # unregistered holder: pretty_repr runs for the same object in two threads at once
    from prettyprinter import pretty_repr
    Shared = mk('Shared', (), {'__repr__': pretty_repr})
    register_pretty(Shared)(lambda v, ctx: 'SHARED')
    Holder = mk('Holder', (), {'__init__': lambda self, v: setattr(self, 'v', v), '__repr__': lambda self: 'H(%r)' % (self.v,)})
    shared_obj = Shared()
    register_pretty(mod + '.Lazy')(lambda v, ctx: 'LAZY')
    register_pretty(mod + '.Lazy2')(lambda v, ctx: 'LAZY2')
    register_pretty(Direct)(lambda v, ctx: 'DIRECT')
    return dict(lazy=Lazy, sub=Sub, subsub=SubSub, lazy2=Lazy2, direct=Direct, unreg=Unreg, seq=SeqLike, holder=Holder, shared_obj=shared_obj)


def make_value(kind, fam):
    if kind.startswith('list-'):
        return [make_value(kind[5:], fam), 1]
    if kind.startswith('dict-'):
        return {'k': make_value(kind[5:], fam)}
    if kind == 'seq':
        return fam['seq']((1, 2, 3))
    if kind in STR:
        return STR[kind]
    if kind == 'sharedrepr':
        return fam['holder'](fam['shared_obj'])
    return fam[kind]()


def make_programs(progs, fam):
    from prettyprinter import pformat
    out = []
    for prog in progs:
        calls = []
        for kind in prog:
            # 'kind@W' prints with width=W, ribbon_width=W-3: threads using different settings
            kind, _, w = kind.partition('@')
            v = make_value(kind, fam)
            if w:
                calls.append(lambda v=v, w=int(w): pformat(v, width=w, ribbon_width=max(1, w - 3)))
            else:
                calls.append(lambda v=v: pformat(v))
        out.append(calls)
    return out


def run_schedule(progs, schedule, record=False):
    fam = fresh()
    programs = make_programs(progs, fam)
    if any('str' in kind for prog in progs for kind in prog):
        from prettyprinter import pformat
        pformat(FILLER, width=60)
    r = sched.Run(programs, schedule, record=record)
    with warnings.catch_warnings():
        warnings.simplefilter('ignore')
        r.go()
    return r


def sequential(progs):
    key = core.canonical(progs)
    if key not in _cache:
        r = run_schedule(progs, [])
        _cache[key] = (r.results, list(r.lines))
    return _cache[key]


def dry_run(progs):
    """-> (lines of thread 0 when run first and alone, indices of lines inside the registration window)"""
    key = 'dry:' + core.canonical(progs)
    if key not in _cache:
        r = run_schedule(progs, [[0, sched.INF]], record=True)
        hot = [i for i, name in enumerate(r.trace[0]) if name in sched.WINDOW_FUNCS]
        _cache[key] = (r.lines[0], hot)
    return _cache[key]


def enumerate_cases(tier):
    for a, b in PAIRS:
        progs = [a, b]
        K, hot = dry_run(progs)
        for k in range(0, K + 1):
            yield {'progs': progs, 'schedule': [[0, k], [1, sched.INF]]}


def fixed_cases():
    yield {'progs': [['lazy'], ['lazy'], ['sub']], 'schedule': [[0, 40], [1, 40], [2, 40], [1, 5], [0, 3]]}


def strategy(tier):
    from hypothesis import strategies as st
    K, hot = dry_run([['list-lazy'], ['list-lazy']])
    hot = hot or [0]
    near_hot = st.tuples(st.sampled_from(hot), st.integers(-3, 3)).map(lambda p: max(0, p[0] + p[1]))
    seglen = st.one_of(st.integers(0, 12), near_hot, near_hot, st.integers(0, K + 10))
    prog = st.lists(st.sampled_from(KINDS), min_size=1, max_size=2)

    @st.composite
    def cases(draw):
        n = draw(st.sampled_from([2, 2, 3]))
        progs = [draw(prog) for _ in range(n)]
        segs = draw(st.lists(st.tuples(st.integers(0, n - 1), seglen).map(list), min_size=2, max_size=5))
        return {'progs': progs, 'schedule': segs}
    return cases()


def oracle(case):
    progs = case['progs']
    try:
        expected, _ = sequential(progs)
        r = run_schedule(progs, case['schedule'])
    except sched.Deadlock as e:
        raise core.HarnessError('scheduler: %s' % e)
    for tid, (want, got) in enumerate(zip(expected, r.results)):
        if any(x[0] == 'exc' for x in want):
            raise core.HarnessError('sequential run raised: %r' % (want,))
        if got != want:
            return core.viol('concurrent-result-differs', 'thread %d: sequential %r, under schedule %r got %r (programs %r)' % (
                tid, want, case['schedule'], got, progs))
    labels = ['threads:%d' % len(progs)]
    if r.preempt_in_window:
        labels.append('preempted-in-registration-window')
    if r.preemptions:
        labels.append('preempted')
    return core.ok(r.preempt_in_window >= 1, labels)
