"""C02 - string and bytes literals are reproduced exactly, however they are split."""
import ast
import io
import itertools
import tokenize
import types

from .. import core, eqv, values, steps

ID = 'C02'
LEVEL = 'exploration'
RULE = ('case = (str or bytes, placement in {top, sole element, first of two, dict key, dict value, '
        'SimpleNamespace kwarg, pretty_call positional arg, pretty_call kwarg}, width, ribbon, indent). Exhaustive: every '
        'str/bytes over the 8-symbol alphabet (quote, dquote, backslash, space, newline, letter, non-ASCII, NUL) up to '
        'length 3 (quick) / 4 (thorough) x every placement x every width 1..len(repr)+indent+8, every word over {quote, '
        'dquote, backslash, letter} up to length 6/7, plus the same '
        'words embedded in padding so that split points sweep over them; random: long unicode/binary up to 400. '
        'Oracle: STRING tokens (tokenize) literal_eval-ed and concatenated == original, same type, no empty piece '
        '(unless the value is empty: exactly one), b prefix on every bytes piece, whole output evaluates to the '
        'placement value, step budget (package lines) bounds termination. non-trivial = literal split in >= 2 '
        'pieces, or an escape was needed, or width < 2; distinct by case hash')
ASSUMPTIONS = ['tokenize/ast.literal_eval of CPython 3.12 define what a literal denotes',
               'termination is judged by a deterministic budget of executed package lines, never wall-clock']
BUDGET = {'quick': {'random': 8000, 'shards': 16}, 'thorough': {'random': 300000, 'shards': 16}}
FUZZ = {'runs': 40000}   # thorough tier: 16 atheris campaigns of this many executions over the same strategy and oracle

ALPHA_S = ["'", '"', '\\', ' ', '\n', 'a', 'é', '\x00']
ALPHA_B = [b"'", b'"', b'\\', b' ', b'\n', b'a', b'\xe9', b'\x00']
PLACES = ['top', 'sole', 'first', 'key', 'val', 'ns', 'call', 'callkw']


def place(s, where):
    from .. import vtypes
    if where == 'top':
        return s
    if where == 'sole':
        return [s]
    if where == 'first':
        return [s, 0]
    if where == 'key':
        return {s: 0}
    if where == 'val':
        return {0: s}
    if where == 'ns':
        return types.SimpleNamespace(a=s)
    if where == 'call':
        return vtypes.Box(s)
    if where == 'callkw':
        return vtypes.Box(1, kw=s)
    raise ValueError(where)


def extract(obj, where):
    if where == 'top':
        return obj
    if where in ('sole', 'first'):
        return obj[0]
    if where == 'key':
        return next(iter(obj))
    if where == 'val':
        return obj[0]
    if where == 'ns':
        return obj.a
    if where == 'call':
        return obj.args[0]
    if where == 'callkw':
        return obj.kwargs['kw']


def _recipe(s):
    if isinstance(s, str):
        return ['str', s]
    return ['bytes', s.hex()]


def _case(s, where, w, r=None, indent=4):
    return {'s': _recipe(s), 'place': where, 'width': w, 'ribbon': r if r is not None else w, 'indent': indent}


def _words(alpha, maxlen):
    empty = alpha[0][:0]
    yield empty
    for n in range(1, maxlen + 1):
        for tup in itertools.product(alpha, repeat=n):
            yield empty.join(tup)


def enumerate_cases(tier):
    L = 3 if tier == 'quick' else 4
    for alpha in (ALPHA_S, ALPHA_B):
        for s in _words(alpha, L):
            maxw = len(repr(s)) + 4 + 8
            widths = range(1, maxw + 1)
            if tier == 'quick' and len(s) >= 3:
                widths = [w for w in widths if w in (1, 2, 5, 9, 10, 11, 12, 13, 14, 16, maxw)]
            for where in PLACES:
                for w in widths:
                    yield _case(s, where, w)
    # quote / backslash interplay: every word over {', ", \\, a} up to length 6 (quick) / 7, str and bytes
    QL = 6 if tier == 'quick' else 7
    for alpha in (["'", '"', '\\', 'a'], [b"'", b'"', b'\\', b'a']):
        for s in _words(alpha, QL):
            if len(s) < 4:
                continue
            for where, w in (('top', 79), ('val', 1)) if tier == 'quick' else (('top', 79), ('val', 1), ('key', 30), ('call', 12)):
                yield _case(s, where, w)
    # embedded: split points sweep over the adversarial word
    pads = [(9, 0), (8, 3), (5, 9), (10, 10)] if tier == 'quick' else [(i, j) for i in (0, 5, 8, 9, 10, 11) for j in (0, 1, 9, 12)]
    EL = 2
    for alpha in (ALPHA_S, ALPHA_B):
        a = alpha[5]
        sp = alpha[3]
        for u in _words(alpha, EL):
            for (i, j) in pads:
                for sep in (a[:0], sp):
                    s = a * i + sep + u + sep + a * j
                    for where in ('top', 'first', 'val', 'call'):
                        for w in ((1, 8, 12, 14, 16, 18, 22) if tier == 'quick' else range(1, 30)):
                            yield _case(s, where, w)


def fixed_cases():
    yield _case('', 'top', 1)
    yield _case(b'', 'sole', 10, indent=8)
    yield _case('', 'val', 3)
    yield _case('a' * 100, 'key', 20)
    yield _case(b'ab cd ' * 30, 'callkw', 30, r=10)
    yield _case('it\'s "quoted" \\ text ' * 8, 'val', 25)
    # word texts ending in a separator (or not), str and bytes, at every width of a range: some width leaves the last
    # line exactly full, some leaves one column too few
    for base in ('aaaa bbbb cccc dddd ', 'aaaa bbbb cccc dddd', 'ab-cd/ef-gh/ij-kl/', 'x ' * 12, 'word\nline two\n', ' lead and trail  '):
        for s in (base, base.encode()):
            for w in range(6, 34):
                yield _case(s, 'top', w)
                if w % 3 == 0:
                    yield _case(s, 'sole', w)
                    yield _case(s, 'val', w)


def strategy(tier):
    S = values.strategies()
    st = S['st']
    chars = st.sampled_from(values.ADV_CHARS + values.EXTRA_CHARS + ['a', 'a', ' '])
    long_adv = st.lists(chars, max_size=150).map(''.join)
    quotes1 = st.lists(st.sampled_from(["'", 'a', ' ', 'bc']), max_size=80).map(''.join)
    quotes2 = st.lists(st.sampled_from(['"', 'a', ' ', 'bc']), max_size=80).map(''.join)
    quotes3 = st.lists(st.sampled_from(['"', "'", "'", 'a', ' ']), max_size=80).map(''.join)
    quotes4 = st.lists(st.sampled_from(['"', '"', "'", 'a', ' ']), max_size=80).map(''.join)
    quotes5 = st.lists(st.sampled_from(['"', "'", '\\', '\\"', "\\'", 'a', ' ', 'word']), max_size=60).map(''.join)
    s_str = st.one_of(long_adv, S['words'], st.text(max_size=400), quotes1, quotes2, quotes3, quotes4, quotes5, quotes5,
                      st.integers(0, 200).map(lambda n: 'x' * n))
    s_bytes = st.one_of(st.binary(max_size=400),
                        s_str.map(lambda s: s.encode('utf-8', 'surrogatepass')),
                        st.lists(st.sampled_from(ALPHA_B + [b'a', b' ', b'word']), max_size=150).map(b''.join))
    s_any = st.one_of(s_str.map(_recipe), s_bytes.map(_recipe))
    width = st.one_of(st.integers(1, 30), st.integers(1, 120), st.sampled_from([1, 2, 79, 200]))
    return st.fixed_dictionaries({
        's': s_any, 'place': st.sampled_from(PLACES), 'width': width,
        'ribbon': st.one_of(width, st.just(10 ** 6)), 'indent': st.sampled_from([1, 2, 4, 4, 8]),
        'opts': st.tuples(S['neutral'], st.booleans()).map(lambda p: dict(p[0], sort_dict_keys=p[1])),
    }).map(lambda c: dict(c, ribbon=c['width'] if c['ribbon'] == 10 ** 6 else c['ribbon']))


def string_tokens(text):
    src = '(' + text + '\n)'
    toks = []
    for tok in tokenize.generate_tokens(io.StringIO(src).readline):
        if tok.type == tokenize.STRING:
            toks.append(tok.string)
        elif tok.type in (getattr(tokenize, 'FSTRING_START', -1),):
            toks.append(None)
    return toks


def oracle(case):
    s = values.build(case['s'])
    where = case['place']
    v = place(s, where)
    cfg = {'width': case['width'], 'ribbon_width': case['ribbon'], 'indent': case['indent']}
    cfg.update(case.get('opts') or {})
    cap = 400 * (len(s) + 60) * 3
    if len(s) > 10 and (case['width'] <= 12 or len(s) > 100 or core.digest(case)[0] < 40):
        # Termination budget. Only a literal longer than the 10-column floor can reach the
        # splitter's loop; metering costs ~15x, so it is applied where little width is left,
        # to very long literals, and to a hash-selected sixth of the rest.
        nsteps, p, exceeded = steps.measure(lambda: values.pp(v, guard=False, **cfg), cap=cap)
    else:
        p, exceeded = values.pp(v, **cfg), False
    if exceeded:
        return core.viol('step-budget', 'more than %d package lines for a %d-char literal' % (cap, len(s)))
    if p.exc is not None:
        return core.viol('pformat-raised', repr(p.exc))
    if p.fallback_warnings():
        return core.viol('printer-failed', p.fallback_warnings()[0][:300])
    text = p.text
    from .. import vtypes
    try:
        back = values.evaluate(text, vtypes.env())
    except Exception as e:
        return core.viol('not-evaluable', '%r\n%s' % (e, text[:500]))
    try:
        got = extract(back, where)
    except Exception as e:
        return core.viol('wrong-shape', '%r\n%s' % (e, text[:500]))
    if type(got) is not type(s) or got != s:
        return core.viol('value-differs', 'expected %r got %r\n%s' % (s, got, text[:500]))
    if where in ('sole', 'first', 'key', 'val'):
        if not eqv.same(back, v):
            return core.viol('context-differs', 'expected %r got %r' % (v, back))
    try:
        toks = string_tokens(text)
    except (tokenize.TokenError, SyntaxError) as e:
        return core.viol('not-tokenizable', repr(e))
    if any(t is None for t in toks):
        return core.viol('not-a-plain-literal', text[:300])
    pieces = []
    for t in toks:
        if isinstance(s, bytes) and not t.lower().startswith(('b', 'rb', 'br')):
            return core.viol('missing-bytes-prefix', 'piece %s in\n%s' % (t, text[:500]))
        try:
            pieces.append(ast.literal_eval(t))
        except Exception as e:
            return core.viol('piece-not-literal', '%r %r' % (t, e))
    if not pieces:
        return core.viol('no-literal', repr(text[:200]))
    if any(type(pc) is not type(s) for pc in pieces):
        return core.viol('piece-type', repr(pieces)[:300])
    joined = type(s)().join(pieces)
    if joined != s:
        return core.viol('concatenation-differs', 'pieces %r != %r' % (pieces, s))
    if len(s) == 0:
        if len(pieces) != 1:
            return core.viol('empty-literal-pieces', repr(pieces))
    elif any(len(pc) == 0 for pc in pieces):
        return core.viol('empty-piece', 'pieces %r\n%s' % (pieces, text[:400]))
    labels = [where]
    split = len(pieces) >= 2
    escaped = any('\\' in t for t in toks)
    if split:
        labels.append('split')
    if escaped:
        labels.append('escaped')
    if case['width'] < 2:
        labels.append('width<2')
    return core.ok(split or escaped or case['width'] < 2, labels)


def custom_phase(tier, seed, st, procs):
    """Optional sub-check on the splitter and the escaper, when importable."""
    try:
        from prettyprinter.prettyprinter import str_to_lines, escape_str_for_quote
    except ImportError:
        return {'helper_subcheck': 'not importable - skipped'}
    n = 0
    for alpha in (ALPHA_S, ALPHA_B):
        for s in _words(alpha, 3):
            for q in ("'", '"'):
                esc = escape_str_for_quote(q, s)
                lit = ('b' if isinstance(s, bytes) else '') + q + esc + q
                res = None
                try:
                    res = ast.literal_eval(lit)
                except Exception:
                    pass
                n += 1
                case = {'helper': 'escape_str_for_quote', 'q': q, 's': _recipe(s)}
                if res != s or type(res) is not type(s):
                    st.record(case, core.viol('helper-escape', '%r with %s -> %s' % (s, q, lit)), 'helper')
                else:
                    st.record(case, core.ok(False), 'helper')
    for alpha in (ALPHA_S, ALPHA_B):
        a, sp = alpha[5], alpha[3]
        for u in _words(alpha, 2):
            s = a * 7 + sp + u + a * 4 + sp + u + a * 9
            for q in ("'", '"'):
                for n_ in (1, 2, 3, 5, 8, 10, 13):
                    lines = list(str_to_lines(n_, q, s))
                    n += 1
                    case = {'helper': 'str_to_lines', 'q': q, 's': _recipe(s), 'max_len': n_}
                    if type(s)().join(lines) != s or any(len(x) == 0 for x in lines):
                        st.record(case, core.viol('helper-split', '%r max_len=%d -> %r' % (s, n_, lines)), 'helper')
                    else:
                        st.record(case, core.ok(len(lines) > 1, ['helper-split']), 'helper')
    return {'helper_subcheck_cases': n}
