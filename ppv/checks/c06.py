"""C06 - whatever fits on one line is put on one line."""
from .. import core, docterm, refsem, values
from . import c05

ID = 'C06'
LEVEL = 'exploration'
RULE = ('three families of cases. (big) bracketed lists of 40..600 (thorough 2500) fragments and brackets nested 40..130 deep, at widths flat length + {0, 1, 50, 10^6}, both strategies: no line break at all. (doc) classic-algebra term x width x ribbon fraction x strategy, same enumeration/'
        'generation as C05 (all terms <= 5/6 nodes + random): every group with a direct line/softline that was laid '
        'out BROKEN although its flat reading reaches no forced break must be justified by an independent reference '
        'look-ahead (flat group + rest of line exceeds min(width-col, indent+ribbon-col); or, smart strategy only, a '
        'following more deeply indented line exceeds the page; or a forced-break document starts later on the line); '
        'existential over reproducing assignments. (value) value recipe (built-ins, subclass instances, pretty_call '
        'types, stdlib instances) whose rendering at width=ribbon=10^6 is one line of L columns must print as that same '
        'line at width=ribbon in {L, L+1, L+2, L+7, 2L+3} and at pages of L+37 .. L+1000 columns with a ribbon of exactly L. non-trivial: (doc) >= 1 direct-choice group broken and >= 1 '
        'flat; (value) L >= 10 and the value has a container or call; distinct by case hash')
ASSUMPTIONS = ['the reference look-ahead reads "forced-break document starts later on that same line" broadly '
               '(any always_break reachable before the look-ahead ends justifies a break)',
               'unobservable decisions (groups without own line/softline) are not judged']
BUDGET = {'quick': {'random': 9000, 'shards': 16}, 'thorough': {'random': 400000, 'shards': 16}}


STRINGS = ['plain words here', "rock'n'roll all night", "it's", "''''", 'say "hi" twice "ok"', '\'"\'"\'', 'back\\slash\\', 'tab\there',
           'line\nbreak', 'é' * 12, '', 'x' * 40, "a'b'c'd'e'f", 'q"q"q"q', 'abcdefghijkl', 'a' * 20,
           # longer than any "practical" line: the one-line form is still owed at a width that holds it
           'x' * 151, 'word ' * 40, 'y' * 149, 'z' * 150, "it's " * 50, 'w' * 400]


def enumerate_cases(tier):
    for c in c05.enumerate_cases(tier):
        c['kind'] = 'doc'
        yield c
    # one-line values around string literals of every quoting flavour, str and bytes, in the usual positions
    for s in STRINGS:
        for leaf in (['str', s], ['bytes', s.encode('utf-8').hex()]):
            shapes = [['list', [leaf]], ['list', [leaf, ['int', 1]]], ['tuple', [leaf]], ['set', [leaf]], ['list', [['list', [['list', [leaf]]]]]],
                      ['dict', [[leaf, ['int', 1]]]], ['dict', [[['int', 1], leaf]]], ['call', 'box', [leaf], []], ['call', 'box', [['int', 1]], [['kw', leaf]]],
                      ['fset', [leaf]], leaf,
                      # the literal as the LAST element / argument with one closing character after it
                      ['list', [['int', 1], leaf]], ['call', 'box', [['int', 1], leaf], []], ['call', 'box', [], [['x', leaf]]],
                      ['tuple', [['int', 1], leaf]], ['dict', [[['int', 1], ['int', 2]], [['int', 3], leaf]]], ['list', [['list', [['int', 1], leaf]]]]]
            for v in shapes:
                for indent in (4, 1, 8):
                    yield {'kind': 'value', 'v': v, 'indent': indent}


def big_cases(tier):
    """documents whose flat form is long in characters and in nodes (hundreds of fragments on one line, groups nested
    a hundred deep) at widths that hold it: nothing may break"""
    ns = (40, 130, 600) if tier == 'quick' else (40, 130, 600, 2500)
    for shape in ('flatlist', 'nested', 'nested-pairs'):
        for n in ns:
            if shape != 'flatlist' and n > 150:
                continue
            for slack in (0, 1, 50, 10 ** 6):
                for strategy in ('smart', 'fast'):
                    yield {'kind': 'big', 'shape': shape, 'n': n, 'slack': slack, 'strategy': strategy}


def build_big(shape, n):
    from prettyprinter.doc import concat, group, nest
    from prettyprinter.doctypes import LINE, SOFTLINE

    def bracket(inner):
        return group(concat(['[', nest(4, concat([SOFTLINE, inner])), SOFTLINE, ']']))
    if shape == 'flatlist':
        items = ['x']
        for _ in range(n - 1):
            items += [',', LINE, 'x']
        return bracket(concat(items)), 2 + n + 2 * (n - 1)
    doc, flat = 'x', 1
    for i in range(n):
        if shape == 'nested-pairs' and i % 2:
            doc, flat = bracket(concat([doc, ',', LINE, 'y'])), flat + 5
        else:
            doc, flat = bracket(doc), flat + 2
    return doc, flat


def oracle_big(case):
    from prettyprinter import layout as L, sdoctypes
    from .. import steps
    doc, flat = build_big(case['shape'], case['n'])
    w = flat + case['slack']
    fn = L.layout_smart if case['strategy'] == 'smart' else L.layout_fast
    stream, exceeded = steps.guarded(lambda: list(fn(doc, width=w, ribbon_frac=1.0)), cap=2 * 10 ** 7, cpu_seconds=20.0)
    if exceeded:
        return core.viol('no-termination-within-budget', 'layout of %s n=%d' % (case['shape'], case['n']))
    text = refsem.stream_text(stream, sdoctypes)
    if '\n' in text or len(text) != flat:
        return core.viol('one-liner-broken', '%s n=%d: the flat form has %d columns, at width %d (%s) the layout has %d line breaks' % (
            case['shape'], case['n'], flat, w, case['strategy'], text.count('\n')))
    return core.ok(True, ['big', case['shape']])


def fixed_cases():
    yield from big_cases('quick')
    # containers of one-column elements, alone on their line: the one-line form at exactly L columns
    I = lambda n: ['int', n]
    for n in (1, 2, 3, 4, 8):
        items = [I(i % 10) for i in range(n)]
        for v in (['list', items], ['tuple', items], ['set', items[:3]], ['dict', [[I(i), I(i)] for i in range(min(n, 4))]],
                  ['list', [['list', items]]], ['dict', [[['str', 'a'], I(1)], [['str', 'b'], I(2)], [['str', 'c'], ['list', [I(0)] * 22]]]],
                  ['call', 'box', items[:3], []], ['list', [I(1), ['list', items]]]):
            for indent in (4, 1):
                yield {'kind': 'value', 'v': v, 'indent': indent}
    yield {'kind': 'value', 'v': ['list', [['int', 1], ['str', 'ab'], ['dict', [[['int', 1], ['tuple', [['int', 2]]]]]]]], 'indent': 4}
    yield {'kind': 'value', 'v': ['dict', [[['str', 'k'], ['list', [['float', 'nan'], ['fset', [['int', 1]]]]]]]], 'indent': 2}


def strategy(tier):
    from hypothesis import strategies as st
    S = values.strategies()
    from .. import gens
    doc = c05.strategy(tier).map(lambda c: dict(c, kind='doc'))
    val = st.fixed_dictionaries({'kind': st.just('value'), 'v': gens.any_value(S, comments=False),
                                 'indent': st.sampled_from([1, 2, 4, 8])})
    return st.one_of(doc, val, val)


def oracle_doc(case):
    from prettyprinter import sdoctypes
    res = c05.analyse(case)
    if isinstance(res, core.Result):
        return res
    stream, assigns = res
    w = case['w']
    ribbon = c05.ribbon_of(w, case['frac'])
    ff = {}
    best = None
    worst = None
    for recs in assigns:
        bad = None
        nb = nf = 0
        for d in recs:
            if not refsem.has_direct_choice(d.term[1]):
                continue
            if refsem.first_forced(d.term[1], ff) is not None:
                continue
            if d.flat:
                nf += 1
                continue
            nb += 1
            fits, why = refsem.ref_fits(w, ribbon, case['strategy'], d)
            if fits:
                bad = (d, why)
                break
        if bad is None:
            best = (nb, nf)
            break
        worst = bad
    if best is None:
        d, why = worst
        return core.viol('broken-although-fits', 'group %s at column %d indent %d was broken but fits (%s); width %d ribbon %d %s\nstream %r' % (
            core.canonical(d.term)[:300], d.col, d.indent, why, w, ribbon, case['strategy'], stream))
    nb, nf = best
    labels = ['doc', case['strategy']]
    return core.ok(nb >= 1 and nf >= 1, labels)


def oracle_value(case):
    from .. import vtypes
    v = values.build(case['v'])
    big = 10 ** 6
    p0 = values.pp(v, width=big, ribbon_width=big, indent=case['indent'])
    if p0.exc is not None:
        return core.viol('pformat-raised', repr(p0.exc))
    if '\n' in p0.text:
        return core.skip('not-one-line')
    L = len(p0.text)
    if L == 0:
        return core.skip('empty-output')
    # width = ribbon around L, and pages much wider than a ribbon of exactly L columns (the ribbon is handed to the
    # layout as a fraction of the page: no column may get lost on the way)
    pairs = [(w, w) for w in (L, L + 1, L + 2, L + 7, 2 * L + 3)] + [(L + 37, L), (max(101, L + 1), L), (max(140, 2 * L), L), (max(997, L + 3), L), (L + 1000, L + 1)]
    for w, rb in pairs:
        p = values.pp(v, width=w, ribbon_width=rb, indent=case['indent'])
        if p.exc is not None:
            return core.viol('pformat-raised', repr(p.exc))
        if p.text != p0.text:
            return core.viol('one-liner-broken', 'one-line form (L=%d)\n%s\nat width=%d ribbon=%d printed as\n%s' % (L, p0.text[:400], w, rb, p.text[:600]))
    # boundary made visible (no assertion): L-1
    below = values.pp(v, width=max(1, L - 1), ribbon_width=max(1, L - 1), indent=case['indent'])
    labels = ['value']
    if below.text != p0.text:
        labels.append('breaks-at-L-1')
    nontrivial = L >= 10 and (values.has_container(case['v']) or case['v'][0] in ('sub', 'call', 'std'))
    return core.ok(nontrivial, labels)


def oracle(case):
    if case.get('kind') == 'value':
        return oracle_value(case)
    if case.get('kind') == 'big':
        return oracle_big(case)
    return oracle_doc(case)
