"""C15 - printer dispatch follows the class hierarchy for every registration history."""
import itertools

from .. import core, values

ID = 'C15'
LEVEL = 'exploration'
RULE = ('position family: a subclass of object / str / bytes / int / float / tuple / frozenset with a printer registered for it (by class, by name, or for its parent) prints through that printer at every position - top level, list / tuple / set / frozenset element, dict value, dict key (with and without sort_dict_keys), key and value of a nested dict, positional / keyword argument of a call. History family: case = history of operations on a fresh class lattice per case (chain A<-B<-C, D(B, B2) with an unrelated second base, '
        'E(A) and the true diamond F(B, E), unrelated U; '
        'unique module names): register by class, register by qualified-name string, register predicate accepting a '
        'subset of the classes (with a new printer, the same printer function under a second predicate, or the same predicate object with another printer), print an instance, is_registered with each of the 6 legal flag combinations and the '
        'illegal one. Exhaustive: all histories of length <= 3 over two reduced alphabets (classes A, B, D and A, E, F; 27 ops each); '
        'random: Hypothesis lists of up to 14 ops over the full lattice. Oracle: executable model - the printer used is '
        'the latest one registered (by class or by name, equivalent) for the nearest class in the MRO, else the '
        'first-registered accepting predicate, else repr (every test printer returns a unique tag); is_registered is '
        'compared with the truth table of the same model; queries with register_deferred=False leave the model state '
        'untouched, which the following prints verify; illegal flags raise ValueError. non-trivial = a print after a '
        'by-name registration on a strict ancestor and >= 1 is_registered query; distinct by case hash')
ASSUMPTIONS = ['is_registered(check_deferred=False) may answer either way for a by-name entry that an earlier print or '
               'register_deferred=True query may have promoted (pinned by test_deferred_registration)',
               'the predicate registry is trimmed back to its initial length between histories (getattr-guarded)']
BUDGET = {'quick': {'random': 12000, 'shards': 16}, 'thorough': {'random': 300000, 'shards': 64}}

NAMES = ['A', 'B', 'C', 'B2', 'D', 'U', 'E', 'F']
FLAGS = [(cs, cd, rd) for cs in (False, True) for cd in (False, True) for rd in (False, True)]
_uid = itertools.count()


def lattice():
    i = next(_uid)
    mod = 'ppvlat%d' % i

    def mk(name, bases):
        c = type(name, bases, {})
        c.__module__ = mod
        c.__qualname__ = name
        return c
    A = mk('A', ())
    B = mk('B', (A,))
    C = mk('C', (B,))
    B2 = mk('B2', ())
    D = mk('D', (B, B2))
    U = mk('U', ())
    E = mk('E', (A,))
    F = mk('F', (B, E))          # a true diamond: MRO F, B, E, A
    return mod, dict(A=A, B=B, C=C, B2=B2, D=D, U=U, E=E, F=F)


def enumerate_cases(tier):
    for names in (['A', 'B', 'D'], ['A', 'E', 'F']):
        yield from _enumerate(tier, names)


def _enumerate(tier, names):
    ops = []
    for n in names:
        ops.append(['regc', n])
        ops.append(['regn', n])
        ops.append(['print', n])
        for fl in [(True, True, True), (True, True, False), (False, False, False), (False, True, True), (True, False, False)]:
            ops.append(['isreg', n] + list(fl))
    ops.append(['regp', [names[0], names[2]]])
    ops.append(['regp', [names[1]]])
    ops.append(['print', 'C'])
    maxlen = 3 if tier == 'quick' else 4
    for ln in range(1, maxlen + 1):
        for hist in itertools.product(ops, repeat=ln):
            if not any(o[0] in ('print', 'isreg') for o in hist):
                continue
            if tier == 'thorough' and ln == 4 and hist[-1][0] not in ('print',):
                continue
            yield {'ops': [list(o) for o in hist]}


POS_BASES = ['object', 'str', 'bytes', 'int', 'float', 'tuple', 'frozenset']
POS_VIA = ['class', 'name', 'parent']
POSITIONS = ['top', 'list', 'tuple', 'dictvalue', 'dictkey', 'dictkey-sorted', 'set', 'frozenset', 'nested-key', 'callarg', 'callkw']


def position_cases():
    # the printer registered for the nearest class is used wherever the value stands (dict keys, set elements included)
    for base in POS_BASES:
        for via in POS_VIA:
            for pos in POSITIONS:
                yield {'position': pos, 'base': base, 'via': via}


def oracle_position(case):
    import builtins
    from prettyprinter import register_pretty, pretty_call
    i = next(_uid)
    mod = 'ppvpos%d' % i
    base = getattr(builtins, case['base'])
    ns = {'__module__': mod}
    if case['base'] != 'object':
        ns['__hash__'] = base.__hash__
    parent = type('Parent', (base,), dict(ns, __qualname__='Parent'))
    cls = type('Child', (parent,), dict(ns, __qualname__='Child')) if case['via'] == 'parent' else parent
    tag = 'TAG%d' % i
    fn = (lambda v, ctx: tag)
    if case['via'] == 'name':
        register_pretty('%s.%s' % (mod, 'Parent'))(fn)
    else:
        register_pretty(parent)(fn)
    arg = {'object': (), 'str': ('key',), 'bytes': (b'key',), 'int': (7,), 'float': (2.5,), 'tuple': ((1, 2),), 'frozenset': ((1,),)}[case['base']]
    inst = cls(*arg)

    class Box:
        pass
    Box.__module__ = mod
    Box.__qualname__ = 'Box'
    pos = case['position']
    register_pretty(Box)(lambda v, ctx: pretty_call(ctx, 'Box', inst) if pos == 'callarg' else pretty_call(ctx, 'Box', kw=inst))
    value, expected = {
        'top': (inst, tag), 'list': ([inst], '[%s]' % tag), 'tuple': ((inst,), '(%s,)' % tag), 'dictvalue': ({1: inst}, '{1: %s}' % tag),
        'dictkey': ({inst: 1}, '{%s: 1}' % tag), 'dictkey-sorted': ({inst: 1}, '{%s: 1}' % tag), 'set': ({inst}, '{%s}' % tag),
        'frozenset': (frozenset([inst]), 'frozenset({%s})' % tag), 'nested-key': ([{inst: [inst]}], '[{%s: [%s]}]' % (tag, tag)),
        'callarg': (Box(), 'Box(%s)' % tag), 'callkw': (Box(), 'Box(kw=%s)' % tag)}[pos]
    p = values.pp(value, sort_dict_keys=(pos == 'dictkey-sorted'))
    if p.exc is not None:
        return core.viol('print-raised', '%r for a %s subclass instance at %s' % (p.exc, case['base'], pos))
    if p.text != expected and not (pos == 'frozenset' and p.text == 'frozenset([%s])' % tag):
        return core.viol('wrong-printer', 'a %s subclass instance (printer registered via %s) at position %s printed as %r, expected %r' % (
            case['base'], case['via'], pos, p.text, expected))
    return core.ok(pos != 'top', ['position', 'position:' + pos, 'position-base:' + case['base']])


def fixed_cases():
    for c in position_cases():
        yield c
    yield {'ops': [['regn', 'A'], ['print', 'A'], ['regn', 'A'], ['print', 'A']]}     # D20
    yield {'ops': [['regc', 'A'], ['regn', 'A'], ['print', 'A']]}
    yield {'ops': [['regn', 'A'], ['regc', 'A'], ['print', 'A'], ['print', 'C']]}
    yield {'ops': [['regn', 'A'], ['regc', 'B'], ['print', 'C'], ['regn', 'B'], ['print', 'D'], ['isreg', 'D', True, False, False]]}
    yield {'ops': [['regp', ['U', 'C']], ['regp', ['C']], ['print', 'C'], ['regn', 'B2'], ['print', 'D'], ['isreg', 'U', False, False, True]]}
    yield {'ops': [['regp', ['U']], ['regps', ['C']], ['print', 'C'], ['print', 'U'], ['regps', ['A']], ['print', 'A'], ['print', 'B']]}
    yield {'ops': [['regp', ['U', 'C']], ['regpp'], ['print', 'U'], ['regpp'], ['print', 'C']]}
    # by-name registrations come and go between two prints of a class (their number is the same again)
    for x, y in (('A', 'B'), ('B', 'A'), ('C', 'U'), ('A', 'E'), ('E', 'F')):
        yield {'ops': [['regn', y], ['print', x], ['print', y], ['regn', x], ['print', x], ['print', y], ['isreg', x, True, True, False]]}
        yield {'ops': [['regn', y], ['regn', 'D'], ['print', x], ['regc', y], ['regn', x], ['print', x], ['regn', y], ['print', y], ['print', x]]}
    # overlapping predicates: a value only the later one accepts is printed before a value both accept
    names = ['A', 'B', 'C', 'B2', 'D', 'U', 'E', 'F']
    for only_later in names:
        for both in names:
            if both == only_later:
                continue
            for third in (None, 'U', 'A'):
                ops = [['regp', sorted({both, 'F'} - {only_later})], ['regp', sorted({both, only_later})]]
                if third and third not in (both, only_later):
                    ops.append(['regp', sorted({third, both})])
                yield {'ops': ops + [['print', only_later], ['print', both], ['print', only_later], ['print', both], ['print', 'F']]}
    # one class registered three times (by class / by name in every order), printed at every point in between
    import itertools
    for kinds in itertools.product(('regc', 'regn'), repeat=3):
        for prints in itertools.product((False, True), repeat=2):
            ops = []
            for i, k in enumerate(kinds):
                ops.append([k, 'A'])
                if i < 2 and prints[i]:
                    ops.append(['print', 'A'])
            yield {'ops': ops + [['print', 'A'], ['print', 'C'], ['isreg', 'A', True, True, False]]}


def strategy(tier):
    from hypothesis import strategies as st
    name = st.sampled_from(NAMES)
    op = st.one_of(
        name.map(lambda n: ['regc', n]),
        name.map(lambda n: ['regn', n]), name.map(lambda n: ['regn', n]),
        st.lists(name, max_size=3, unique=True).map(lambda ns: ['regp', sorted(ns)]),
        st.lists(name, min_size=1, max_size=2, unique=True).map(lambda ns: ['regps', sorted(ns)]),
        st.just(['regpp']),
        name.map(lambda n: ['print', n]), name.map(lambda n: ['print', n]), name.map(lambda n: ['print', n]),
        st.tuples(name, st.sampled_from(FLAGS)).map(lambda p: ['isreg', p[0]] + list(p[1])),
        st.tuples(name, st.sampled_from(FLAGS)).map(lambda p: ['isreg', p[0]] + list(p[1])),
    )
    return st.fixed_dictionaries({'ops': st.lists(op, min_size=1, max_size=14)})


def oracle(case):
    if 'position' in case:
        return oracle_position(case)
    import prettyprinter.prettyprinter as P
    from prettyprinter import register_pretty, is_registered
    mod, L = lattice()
    preds_reg = getattr(P, '_PREDICATE_REGISTRY', None)
    n0 = len(preds_reg) if preds_reg is not None else None
    latest = {}        # class name -> (tag, kind) latest class-level registration
    pending = set()    # names with a by-name registration that may or may not have been promoted yet
    maybe = set()      # names whose by-name entry an earlier operation may have promoted
    direct = set()     # names registered directly by class at least once
    preds = []
    last_pred_printer = None
    last_predicate = None
    tagc = itertools.count()
    log = []
    nontrivial_print = False
    n_isreg = 0
    labels = set()
    try:
        for step, op in enumerate(case['ops']):
            kind = op[0]
            if kind == 'regc':
                tag = 'T%d' % next(tagc)
                register_pretty(L[op[1]])(lambda v, ctx, tag=tag: tag)
                latest[op[1]] = tag
                direct.add(op[1])
                pending.discard(op[1])
                log.append((kind, op[1], tag))
            elif kind == 'regn':
                tag = 'T%d' % next(tagc)
                register_pretty('%s.%s' % (mod, op[1]))(lambda v, ctx, tag=tag: tag)
                latest[op[1]] = tag
                pending.add(op[1])
                log.append((kind, op[1], tag))
            elif kind == 'regpp':
                # the SAME predicate object registered again with another printer: the first registration still wins
                if last_predicate is None:
                    continue
                tag = 'T%d' % next(tagc)
                register_pretty(predicate=last_predicate[1])(lambda v, ctx, tag=tag: tag)
                preds.append((set(last_predicate[0]), tag))
                log.append((kind, sorted(last_predicate[0]), tag))
            elif kind in ('regp', 'regps'):
                accs = tuple(L[n] for n in op[1])
                if kind == 'regps' and last_pred_printer is not None:
                    # the SAME printer function registered under a second predicate
                    tag, fn = last_pred_printer
                else:
                    tag = 'T%d' % next(tagc)
                    fn = (lambda v, ctx, tag=tag: tag)
                    last_pred_printer = (tag, fn)
                predicate = (lambda v, accs=accs: type(v) in accs)
                last_predicate = (list(op[1]), predicate)
                register_pretty(predicate=predicate)(fn)
                preds.append((set(op[1]), tag))
                log.append((kind, op[1], tag))
            elif kind == 'print':
                cls = L[op[1]]
                inst = cls()
                mro = [k.__qualname__ for k in cls.__mro__[:-1]]
                p = values.pp(inst)
                if p.exc is not None:
                    return core.viol('print-raised', '%r after %r' % (p.exc, log))
                expected = None
                how = 'repr'
                for depth_i, kn in enumerate(mro):
                    if kn in latest:
                        expected = latest[kn]
                        how = 'class' if depth_i == 0 else 'ancestor'
                        if depth_i > 0 and kn in pending:
                            nontrivial_print = True
                        break
                if expected is None:
                    for acc, tag in preds:
                        if op[1] in acc:
                            expected = tag
                            how = 'predicate'
                            break
                if expected is None:
                    expected = repr(inst)
                labels.add('print:' + how)
                if len(cls.__mro__) > 4:
                    labels.add('multiple-inheritance')
                for kn in mro:
                    if kn in pending:
                        maybe.add(kn)
                log.append((kind, op[1], p.text))
                if p.text != expected:
                    return core.viol('wrong-printer', 'print %s gave %r, model expects %r\nhistory %r' % (op[1], p.text, expected, log))
            elif kind == 'isreg':
                _, cn, cs, cd, rd = op
                cls = L[cn]
                n_isreg += 1
                if not cd and rd:
                    try:
                        is_registered(cls, check_superclasses=cs, check_deferred=cd, register_deferred=rd)
                    except ValueError:
                        log.append((kind, cn, cs, cd, rd, 'ValueError'))
                        continue
                    return core.viol('illegal-flags-accepted', 'history %r' % (log,))
                got = is_registered(cls, check_superclasses=cs, check_deferred=cd, register_deferred=rd)
                ks = [k.__qualname__ for k in (cls.__mro__[:-1] if cs else (cls,))]
                log.append((kind, cn, cs, cd, rd, got))
                if cd:
                    exp = any(k in latest for k in ks)
                    if got != exp:
                        return core.viol('is_registered-wrong', 'is_registered(%s, superclasses=%s, deferred=%s, register=%s) = %r, model %r\nhistory %r' % (
                            cn, cs, cd, rd, got, exp, log))
                else:
                    lo = any(k in direct for k in ks)
                    hi = any((k in direct) or (k in maybe) for k in ks)
                    if got not in (lo, hi):
                        return core.viol('is_registered-wrong', 'is_registered(%s, superclasses=%s, deferred=False) = %r, model allows %r\nhistory %r' % (
                            cn, cs, got, sorted({lo, hi}), log))
                if rd:
                    for k in ks:
                        if k in pending:
                            maybe.add(k)
            else:
                raise ValueError(op)
    finally:
        if preds_reg is not None:
            del preds_reg[n0:]
    return core.ok(nontrivial_print and n_isreg >= 1, sorted(labels))
