"""C07 - bundled printers are total, and faithful for standard-library types."""
from .. import core, eqv, values, stdvals, vtypes

ID = 'C07'
LEVEL = 'exploration'
RULE = ('case = (instance recipe of a stdlib type with a bundled printer: datetime/date/time (naive, utc, fixed '
        'datetime.timezone with/without name and sub-minute offsets, pytz utc/named/localized/FixedOffset, fold), '
        'timedelta (0, +-1us, min, max, 365d multiples, random), timezone, OrderedDict, defaultdict, deque, Counter, '
        'ChainMap, mappingproxy, UUID, Enum/Flag members, SimpleNamespace, namedtuples (0..n fields, renamed, typing), '
        'struct_time, partial/partialmethod, exceptions, pure paths; payloads are built-in value trees or, one level deep, '
        'other stdlib instances) x placement in '
        '{top, list element, dict value, dict key, inside OrderedDict/deque, five levels deep, the same object at two positions, '
        'two equal instances built separately, key and value of one dict} x (width, ribbon, indent). '
        'Oracle: no "raised an exception" fallback warning; eval with the module in scope gives an object of the same '
        'type that is equal (== plus observable state: fold, utcoffset, maxlen, default_factory, item order, partial '
        'func/args/keywords, exception args). non-trivial = instance is nested >= 1 level or not the empty/default '
        'instance of its type; distinct by case hash; per-type counts in classes')
ASSUMPTIONS = ['equality of reconstructed objects: Python == extended by observable state where == is identity or ignores state',
               'tzinfo objects are compared by the utcoffset/dst/tzname they give a probe datetime (pytz classes compare by identity)']
BUDGET = {'quick': {'random': 12000, 'shards': 16}, 'thorough': {'random': 400000, 'shards': 16}}

PLACES = ['top', 'list', 'dictval', 'dictkey', 'odict', 'deque', 'deep', 'twice', 'rebuilt-pair', 'keyval']


def placed(v, where):
    import collections
    if where == 'top':
        return v
    if where == 'list':
        return [v, 1]
    if where == 'dictval':
        return {'k': v}
    if where == 'dictkey':
        return {v: 1}
    if where == 'odict':
        return collections.OrderedDict([('first', v), ('second', 2)])
    if where == 'deque':
        return collections.deque([v], maxlen=3)
    if where == 'deep':
        return [({'a': [[v]]},)]
    if where == 'twice':
        return [v, (v, 1)]           # the same object at two positions of one print
    if where == 'keyval':
        return {v: [v]}
    raise ValueError(where)


def unplace(obj, where):
    if where == 'top':
        return obj
    if where == 'list':
        return obj[0]
    if where == 'dictval':
        return obj['k']
    if where == 'dictkey':
        return next(iter(obj))
    if where == 'odict':
        return obj['first']
    if where == 'deque':
        return obj[0]
    if where == 'deep':
        return obj[0][0]['a'][0][0]
    if where == 'twice':
        return obj[1][0]
    if where == 'keyval':
        return obj[next(iter(obj))][0]


def fixed_cases():
    cfg = {'width': 79, 'ribbon_width': 71, 'indent': 4}
    yield {'v': ['std', 'tz', ['fixed', 3600, 0, None]], 'place': 'top', 'cfg': cfg}       # D7
    yield {'v': ['std', 'tz', ['fixed', -17997, 0, 'X']], 'place': 'list', 'cfg': cfg}
    yield {'v': ['std', 'datetime', [2020, 1, 1, 0, 5, 0, 0], ['fixed', 19800, 0, None], 1], 'place': 'deep', 'cfg': cfg}
    yield {'v': ['std', 'timedelta', [-999999999, 0, 0]], 'place': 'dictkey', 'cfg': cfg}


def strategy(tier):
    S = values.strategies()
    st = S['st']
    parts = stdvals.std_strategy(S)
    inner = st.one_of(*[parts[k] for k in sorted(parts)])
    # second level: stdlib instances as payloads of stdlib containers (compared by type and repr inside the payload)
    payload = st.one_of(st.recursive(S['leaf'], S['value_ext'], max_leaves=4), inner, st.lists(inner, max_size=2).map(lambda xs: ['list', xs]))
    nested = stdvals.std_strategy(S, payload=payload)
    outer = st.one_of(*[nested[k] for k in ('odict', 'ddict', 'deque', 'chainmap', 'mproxy', 'ns', 'ntuple', 'partial', 'exc')])
    inst = st.one_of(inner, inner, inner, outer)
    cfg = st.fixed_dictionaries({'width': S['width'], 'ribbon_width': S['width'], 'indent': st.sampled_from([1, 2, 4, 8]),
                                 'sort_dict_keys': st.booleans()})
    cfg = st.tuples(cfg, S['neutral']).map(lambda p: dict(p[0], **p[1]))
    return st.fixed_dictionaries({'v': inst, 'place': st.sampled_from(PLACES), 'cfg': cfg})


_ENV = None


def _env():
    global _ENV
    if _ENV is None:
        _ENV = dict(vtypes.env())
        _ENV.update(stdvals.env())
    return _ENV


def trivial_instance(r):
    k = r[1]
    if k in ('odict', 'counter', 'mproxy', 'ns'):
        return not r[2]
    if k == 'ddict':
        return not r[3]
    if k == 'deque':
        return not r[2] and r[3] is None
    if k == 'chainmap':
        return not any(r[2])
    if k == 'timedelta':
        return r[2] == [0, 0, 0]
    if k == 'ntuple':
        return not r[3]
    if k == 'exc':
        return not r[3]
    if k == 'path':
        return r[3] in ('', '.')
    return False


def oracle(case):
    r = case['v']
    where = case['place']
    v = values.build(r)
    if where in ('dictkey', 'keyval'):
        try:
            hash(v)
        except TypeError:
            where = 'dictval' if where == 'dictkey' else 'twice'
    if where == 'rebuilt-pair':
        # two separately built equal instances: they share whatever their constructors cache (pytz zones, enum members)
        obj = [values.build(r), {'k': v}]
        where = 'rebuilt-pair'
    else:
        obj = placed(v, where)
    p = values.pp(obj, **case['cfg'])
    labels = [r[1], 'at:' + where]
    if p.exc is not None:
        return core.viol('pformat-raised', '%r' % (p.exc,), labels)
    fb = p.fallback_warnings()
    if fb:
        return core.viol('printer-failed', fb[0][:600], labels)
    try:
        back = values.evaluate(p.text, _env())
    except Exception as e:
        return core.viol('not-evaluable', '%r\n%s' % (e, p.text[:600]), labels)
    if case['cfg'].get('sort_dict_keys'):
        # plain dict payloads are legitimately reordered; ordered types (OrderedDict, sequences) are not
        def cmp(a, b, mode='keep'):
            return stdvals.deep_same(a, b, 'sort')
    else:
        cmp = stdvals.deep_same
    try:
        got = back[1]['k'] if where == 'rebuilt-pair' else unplace(back, where)
        if where == 'rebuilt-pair' and stdvals.std_equal(v, back[0], cmp):
            return core.viol('not-equal', 'first of two equal instances: %s\n%s' % (stdvals.std_equal(v, back[0], cmp), p.text[:600]), labels)
        if where == 'twice' and stdvals.std_equal(v, back[0], cmp):
            return core.viol('not-equal', 'first occurrence: %s\n%s' % (stdvals.std_equal(v, back[0], cmp), p.text[:600]), labels)
    except Exception as e:
        return core.viol('wrong-shape', '%r\n%s' % (e, p.text[:600]), labels)
    why = stdvals.std_equal(v, got, cmp)
    if why:
        return core.viol('not-equal', '%s\n%s' % (why, p.text[:600]), labels)
    return core.ok(where != 'top' or not trivial_instance(r), labels)
