"""C07 - bundled printers are total, and faithful for standard-library types."""
from .. import core, eqv, values, stdvals, vtypes

ID = 'C07'
LEVEL = 'exploration'
RULE = ('(every reconstructed object is printed and evaluated once more) Exhaustive: a boundary corpus (every pytz zone of the pool x midnight / fold=1 datetimes and times, extreme dates and timedeltas, empty / bounded / degenerate instances of every container, every member and Flag combination, every exception class ...) x every placement x 2 (quick) / 4 (thorough) configurations; ' +
        'case = (instance recipe of a stdlib type with a bundled printer: datetime/date/time (naive, utc, fixed '
        'datetime.timezone with/without name and sub-minute offsets, pytz utc/named/localized/FixedOffset, fold), '
        'timedelta (0, +-1us, min, max, 365d multiples, random), timezone, OrderedDict, defaultdict, deque, Counter, '
        'ChainMap, mappingproxy, UUID, Enum/Flag members, SimpleNamespace, namedtuples (0..n fields, renamed, typing), '
        'struct_time, partial/partialmethod, exceptions, pure paths; payloads are built-in value trees or, one level deep, '
        'other stdlib instances) x placement in '
        '{top, list element, dict value, dict key, inside OrderedDict/deque, five levels deep, the same object at two positions, '
        'two equal instances built separately, key and value of one dict} x (width, ribbon, indent). '
        'Oracle: no "raised an exception" fallback warning; eval with the module in scope gives an object of the same '
        'type that is equal (== plus observable state: fold, utcoffset, maxlen, default_factory, item order, partial '
        'func/args/keywords, exception args). non-trivial = instance is nested >= 1 level or not the empty/default '
        'instance of its type; distinct by case hash; per-type counts in classes')
ASSUMPTIONS = ['equality of reconstructed objects: Python == extended by observable state where == is identity or ignores state',
               'tzinfo objects are compared by the utcoffset/dst/tzname they give a probe datetime (pytz classes compare by identity)']
BUDGET = {'quick': {'random': 12000, 'shards': 16}, 'thorough': {'random': 400000, 'shards': 16}}

PLACES = ['top', 'list', 'dictval', 'dictkey', 'odict', 'deque', 'deep', 'twice', 'rebuilt-pair', 'keyval', 'after-relatives']
_CORPUS_BY_KIND = {}


def _zones(r, out):
    if isinstance(r, list):
        if len(r) >= 2 and r[0] in ('pytz', 'pytz_localized') and isinstance(r[1], str):
            out.append(r[1])
        for x in r:
            _zones(x, out)
    return out


def relatives(r):
    """values related to r that share whatever the package or the types cache: the pytz zones r mentions (the zone
    object itself and a tzinfo localized in it) and two other boundary instances of the same type"""
    import datetime
    import pytz
    out = []
    for z in _zones(r, []):
        out.append(pytz.timezone(z))
        out.append(pytz.timezone(z).localize(datetime.datetime(2001, 2, 3, 4, 5)))
    if not _CORPUS_BY_KIND:
        for c in boundary_corpus():
            _CORPUS_BY_KIND.setdefault(c[1], []).append(c)
    same = _CORPUS_BY_KIND.get(r[1], [])
    if same:
        h = core.digest(r)[0]
        for j in (h % len(same), (h // 7 + 1) % len(same)):
            try:
                out.append(values.build(same[j]))
            except Exception:
                pass
    return out


def placed(v, where):
    import collections
    if where == 'top':
        return v
    if where in ('list', 'after-relatives'):
        return [v, 1]
    if where == 'dictval':
        return {'k': v}
    if where == 'dictkey':
        return {v: 1}
    if where == 'odict':
        return collections.OrderedDict([('first', v), ('second', 2)])
    if where == 'deque':
        return collections.deque([v], maxlen=3)
    if where == 'deep':
        return [({'a': [[v]]},)]
    if where == 'twice':
        return [v, (v, 1)]           # the same object at two positions of one print
    if where == 'keyval':
        return {v: [v]}
    raise ValueError(where)


def unplace(obj, where):
    if where == 'top':
        return obj
    if where in ('list', 'after-relatives'):
        return obj[0]
    if where == 'dictval':
        return obj['k']
    if where == 'dictkey':
        return next(iter(obj))
    if where == 'odict':
        return obj['first']
    if where == 'deque':
        return obj[0]
    if where == 'deep':
        return obj[0][0]['a'][0][0]
    if where == 'twice':
        return obj[1][0]
    if where == 'keyval':
        return obj[next(iter(obj))][0]


def fixed_cases():
    cfg = {'width': 79, 'ribbon_width': 71, 'indent': 4}
    yield {'v': ['std', 'tz', ['fixed', 3600, 0, None]], 'place': 'top', 'cfg': cfg}       # D7
    yield {'v': ['std', 'tz', ['fixed', -17997, 0, 'X']], 'place': 'list', 'cfg': cfg}
    yield {'v': ['std', 'datetime', [2020, 1, 1, 0, 5, 0, 0], ['fixed', 19800, 0, None], 1], 'place': 'deep', 'cfg': cfg}
    yield {'v': ['std', 'timedelta', [-999999999, 0, 0]], 'place': 'dictkey', 'cfg': cfg}


def boundary_corpus():
    """boundary instances of every standard-library type the package ships a printer for"""
    I = lambda n: ['int', n]
    T = lambda s: ['str', s]
    std = lambda *a: ['std'] + list(a)
    tzs = [None, ['utc'], ['fixed', 0, 1, None], ['fixed', 0, 999999, None], ['fixed', -1, 999999, None], ['fixed', 0, 0, 'Z'], ['fixed', 3600, 0, None], ['fixed', -86399, 999999, None], ['fixed', 19800, 0, 'IST'],
           ['pytz_utc'], ['pytz_fixed', 0], ['pytz_fixed', -300], ['pytz_fixed', 1439],
           ['pytz_localized', 'Europe/Helsinki', [2021, 7, 1, 12, 0]], ['pytz_localized', 'America/New_York', [1999, 12, 31, 3, 30]]]
    tzs += [['pytz', z] for z in stdvals.PYTZ_ZONES]
    out = []
    for tz in tzs:
        if tz is not None:
            out.append(std('tz', tz))
        out.append(std('datetime', [2020, 1, 2, 0, 0, 0, 0], tz, 0))          # exact midnight
        out.append(std('datetime', [2020, 1, 2, 3, 4, 5, 6], tz, 1))          # fold=1
        out.append(std('time', [0, 0, 0, 0], tz, 0))
        out.append(std('time', [23, 59, 59, 999999], tz, 1))
    out += [std('datetime', [1, 1, 1, 0, 0, 0, 0], None, 0), std('datetime', [9999, 12, 31, 23, 59, 59, 999999], None, 0),
            std('datetime', [2020, 1, 2, 0, 0, 0, 1], None, 0), std('datetime', [2020, 1, 2, 0, 5, 0, 0], None, 1),
            std('date', [1, 1, 1]), std('date', [9999, 12, 31]), std('date', [2020, 2, 29])]
    for d, s_, us in ((0, 0, 0), (0, 0, 1), (0, 1, 0), (1, 0, 0), (-1, 0, 0), (-1, 86399, 999999), (999999999, 86399, 999999),
                      (-999999999, 0, 0), (365, 0, 0), (730, 3661, 1001), (-800, 3661, 1001), (0, 59, 0), (0, 3600, 0), (0, 0, 1000)):
        out.append(std('timedelta', [d, s_, us]))
    pair = [[T('b'), I(1)], [T('a'), ['list', [I(2)]]]]
    mixed = [[I(1), I(3)], [T('a'), I(3)], [['none'], I(3)], [['bytes', '6b'], I(1)]]
    out += [std('odict', []), std('odict', pair), std('odict', [[['tuple', [I(1), I(2)]], ['dict', []]]]),
            std('deque', [], None), std('deque', [], 0), std('deque', [I(1), I(2)], None), std('deque', [I(1), I(2)], 2), std('deque', [['list', []]], 5),
            std('counter', []), std('counter', [[T('a'), 3], [T('b'), 3], [I(1), 5]]), std('counter', [[k, n[1]] for k, n in mixed]),
            std('counter', [[T('neg'), -2], [T('zero'), 0]]),
            std('chainmap', []), std('chainmap', [[]]), std('chainmap', [pair]), std('chainmap', [pair, []]), std('chainmap', [[], pair, []]),
            std('mproxy', []), std('mproxy', pair),
            std('uuid', '0' * 32), std('uuid', 'f' * 32), std('uuid', '12345678123456781234567812345678'),
            std('ns', []), std('ns', [['a', I(1)]]), std('ns', [['fn', I(1)], ['ctx', I(2)], ['z', ['list', []]], ['a', T('x')]]),
            std('ntuple', 'Empty', []), std('ntuple', 'Point', [I(1), ['list', [I(2)]]]), std('ntuple', 'Renamed', [I(1), I(2), I(3)]),
            std('ntuple', 'Single', [['tuple', []]]),
            std('struct_time', [2020, 1, 2, 3, 4, 5, 3, 2, 0]), std('struct_time', [1, 1, 1, 0, 0, 0, 0, 1, -1]),
            std('partial', 'partial', 'len', [], []), std('partial', 'partial', 'user_function', [I(1)], [['k', T('v')]]),
            std('partial', 'partial', 'sorted', [['list', [I(2), I(1)]]], [['reverse', ['bool', True]]]),
            std('partial', 'partialmethod', 'user_function', [I(1)], []), std('partial', 'partial', 'dict', [], [['fn', I(1)], ['ctx', I(2)]]),
            std('path', 'PurePosixPath', '.'), std('path', 'PurePosixPath', '/'), std('path', 'PurePosixPath', '/usr/local/lib/python3/site-packages/x.py'),
            std('path', 'PureWindowsPath', 'C:\\dir\\file.txt'), std('path', 'PureWindowsPath', 'relative\\x'), std('path', 'PurePosixPath', "it's \"q\""),
            ]
    for f in sorted(stdvals.FACTORIES, key=str):
        out.append(std('ddict', f, []))
        out.append(std('ddict', f, pair))
    for name in sorted(stdvals.EXCEPTIONS):
        out.append(std('exc', name, []))
        out.append(std('exc', name, [T('message'), I(2)]))
        out.append(std('exc', name, [['float', 'inf'], ['list', [I(1), I(2), I(3)]]]))
    for ename, cls in sorted(stdvals.ENUMS.items()):
        for member in cls.__members__:
            out.append(std('enum', ename, member))
    out += [std('enum', 'Perm', n) for n in range(8)] + [std('enum', 'IPerm', n) for n in (0, 2, 6, 8)]
    out += [std('callable', name) for name in sorted(stdvals.CALLABLES_OK)] + [std('callable', name) for name in sorted(stdvals.CALLABLES_TOTAL)]
    out += [std('partial', 'partial', name, [I(1)], []) for name in sorted(stdvals.FUNCTIONS)]
    return out


def enumerate_cases(tier):
    corpus = boundary_corpus()
    cfgs = [{'width': 79, 'ribbon_width': 71, 'indent': 4}, {'width': 20, 'ribbon_width': 20, 'indent': 2, 'sort_dict_keys': True}]
    if tier == 'thorough':
        cfgs += [{'width': 1, 'ribbon_width': 1, 'indent': 1}, {'width': 200, 'ribbon_width': 40, 'indent': 8}]
    for i, v in enumerate(corpus):
        for pi, place in enumerate(PLACES):
            for ci, cfg in enumerate(cfgs):
                if tier == 'quick' and ci == 1 and (i + pi) % 3:
                    continue
                yield {'v': v, 'place': place, 'cfg': cfg}


def strategy(tier):
    S = values.strategies()
    st = S['st']
    parts = stdvals.std_strategy(S)
    inner_ = st.one_of(*[parts[k] for k in sorted(parts)])
    inner = st.deferred(lambda: inner_)         # (keeps the repr of the nested strategy short, see C11)
    # second level: stdlib instances as payloads of stdlib containers (compared by type and repr inside the payload)
    payload = st.one_of(st.recursive(S['leaf'], S['value_ext'], max_leaves=4), inner, st.lists(inner, max_size=2).map(lambda xs: ['list', xs]))
    payload_ = payload
    payload = st.deferred(lambda: payload_)
    nested = stdvals.std_strategy(S, payload=payload)
    outer = st.one_of(*[nested[k] for k in ('odict', 'ddict', 'deque', 'chainmap', 'mproxy', 'ns', 'ntuple', 'partial', 'exc')])
    inst = st.one_of(inner, inner, inner, outer)
    cfg = st.fixed_dictionaries({'width': S['width'], 'ribbon_width': S['width'], 'indent': st.sampled_from([1, 2, 4, 8]),
                                 'sort_dict_keys': st.booleans()})
    cfg = st.tuples(cfg, S['neutral']).map(lambda p: dict(p[0], **p[1]))
    return st.fixed_dictionaries({'v': inst, 'place': st.sampled_from(PLACES), 'cfg': cfg})


_ENV = None


def _env():
    global _ENV
    if _ENV is None:
        _ENV = dict(vtypes.env())
        _ENV.update(stdvals.env())
    return _ENV


def trivial_instance(r):
    k = r[1]
    if k in ('odict', 'counter', 'mproxy', 'ns'):
        return not r[2]
    if k == 'ddict':
        return not r[3]
    if k == 'deque':
        return not r[2] and r[3] is None
    if k == 'chainmap':
        return not any(r[2])
    if k == 'timedelta':
        return r[2] == [0, 0, 0]
    if k == 'ntuple':
        return not r[3]
    if k == 'exc':
        return not r[3]
    if k == 'path':
        return r[3] in ('', '.')
    return False


def oracle(case):
    r = case['v']
    where = case['place']
    v = values.build(r)
    if where in ('dictkey', 'keyval'):
        try:
            hash(v)
        except TypeError:
            where = 'dictval' if where == 'dictkey' else 'twice'
    if where == 'rebuilt-pair':
        # two separately built equal instances: they share whatever their constructors cache (pytz zones, enum members)
        obj = [values.build(r), {'k': v}]
        where = 'rebuilt-pair'
    else:
        obj = placed(v, where)
    if where == 'after-relatives':
        for rel in relatives(r):
            values.pp(rel, **case['cfg'])       # printed first, result not judged
    p = values.pp(obj, **case['cfg'])
    labels = [r[1], 'at:' + where]
    if p.exc is not None:
        return core.viol('pformat-raised', '%r' % (p.exc,), labels)
    fb = p.fallback_warnings()
    if fb:
        return core.viol('printer-failed', fb[0][:600], labels)
    if r[1] == 'callable' and r[2] in stdvals.CALLABLES_TOTAL:
        # a bound method of an instance (or a lambda) has no expression: only "the shipped printer does not fail"
        return core.ok(False, labels + ['totality-only'])
    try:
        back = values.evaluate(p.text, _env())
    except Exception as e:
        return core.viol('not-evaluable', '%r\n%s' % (e, p.text[:600]), labels)
    if case['cfg'].get('sort_dict_keys'):
        # plain dict payloads are legitimately reordered; ordered types (OrderedDict, sequences) are not
        def cmp(a, b, mode='keep'):
            return stdvals.deep_same(a, b, 'sort')
    else:
        cmp = stdvals.deep_same
    try:
        got = back[1]['k'] if where == 'rebuilt-pair' else unplace(back, where)
        if where == 'rebuilt-pair' and stdvals.std_equal(v, back[0], cmp):
            return core.viol('not-equal', 'first of two equal instances: %s\n%s' % (stdvals.std_equal(v, back[0], cmp), p.text[:600]), labels)
        if where == 'twice' and stdvals.std_equal(v, back[0], cmp):
            return core.viol('not-equal', 'first occurrence: %s\n%s' % (stdvals.std_equal(v, back[0], cmp), p.text[:600]), labels)
    except Exception as e:
        return core.viol('wrong-shape', '%r\n%s' % (e, p.text[:600]), labels)
    why = stdvals.std_equal(v, got, cmp)
    if why:
        return core.viol('not-equal', '%s\n%s' % (why, p.text[:600]), labels)
    # the reconstructed object is an instance of the same types: it prints without a failing printer and evaluates again
    # (a localized pytz tzinfo comes back as a zone-less DstTzInfo, which nothing else generates)
    p2 = values.pp(back, **case['cfg'])
    if p2.exc is not None:
        return core.viol('pformat-raised', 'printing the reconstructed object: %r' % (p2.exc,), labels)
    if p2.fallback_warnings():
        return core.viol('printer-failed', 'printing the reconstructed object: ' + p2.fallback_warnings()[0][:500], labels)
    try:
        values.evaluate(p2.text, _env())
    except Exception as e:
        return core.viol('not-evaluable', 'second generation: %r\n%s' % (e, p2.text[:600]), labels)
    return core.ok(where != 'top' or not trivial_instance(r), labels)
