"""C14 - a failing printer is contained at the value it was printing."""
import copy

from .. import core, gens, values

ID = 'C14'
LEVEL = 'fault_enumeration'
RULE = ('case = (tree (nodes also held by struct sequences, namedtuples, deques, namespaces and OrderedDicts) of instrumented objects FNode/FNode2/FLazySub/FDictNode (FDictNode: a dict subclass with the built-in repr; FReprNode: __repr__ = pretty_repr; FObjNode: the printer is a callable object, not a function; FPredNode: the printer is registered through a predicate; FNode2: printer without trailing_comment; FLazySub: printer '
        'registered by name for its base class, exception messages contain braces and percent signs) mixed with lists, '
        'tuples, dict values, comments, trailing comments and second references to already printed nodes (sharing), fault plan). Fault enumeration: for every ordered tree shape '
        'with <= 5 instrumented nodes x 4 edge-wrapper patterns x 3 class patterns, each node in turn (= each printer '
        'invocation in turn: every node is printed exactly once) raises each of 7 exception classes (incl. TypeError and a '
        'custom subclass) before / after printing its children; pairs of faults and faults on the n-th invocation only (a commented dict value is rendered twice) are sampled (Hypothesis), as are larger '
        'random trees; bad return values (5, None, bytes) at the top level and nested. Oracle: output == output of the '
        'same tree with the faulted object replaced by a leaf whose healthy printer returns repr(original) (identical '
        'document => identical layout); a "raised an exception" UserWarning for the failing printer invocations (none if the fault is never reached, at most one each), naming '
        'its module.qualname; nothing escapes pformat; a fault-free reprint equals the baseline; bad return type => '
        'ValueError. non-trivial = a fault below the top level with >= 1 healthy sibling; distinct by case hash')
ASSUMPTIONS = ['the harness printers use build_fncall/pretty_python_value as a user printer would',
               'a faulted node is identified by object (each node printer runs once per print in these trees)']
BUDGET = {'quick': {'random': 5000, 'shards': 16}, 'thorough': {'random': 200000, 'shards': 16}}

EXCS = ['ValueError', 'TypeError', 'KeyError', 'AttributeError', 'RuntimeError', 'ZeroDivisionError', 'Injected']
WRAPS = ['direct', 'list', 'dictval', 'tcmt', 'cmt', 'tuple', 'struct', 'ntuple', 'deque', 'ns', 'odict']
import collections as _c
import time as _time
import types as _types
Pt = _c.namedtuple('Pt', 'x y')


def build(r, nodes, done=None):
    """recipe -> object; `nodes` collects the instrumented nodes in pre-order; ['ref', k] is a second
    reference to an already completed node (sharing without a cycle)"""
    from .. import faults
    from prettyprinter import comment, trailing_comment
    if done is None:
        done = []
    t = r[0]
    if t in ('fn', 'fn2', 'fn3', 'fn4', 'fn5', 'fn6', 'fn7'):
        n = {'fn': faults.FNode, 'fn2': faults.FNode2, 'fn3': faults.FLazySub, 'fn4': faults.FDictNode, 'fn5': faults.FReprNode,
             'fn6': faults.FObjNode, 'fn7': faults.FPredNode}[t](r[1], [])
        nodes.append(n)
        n.children = [build(c, nodes, done) for c in r[2]]
        done.append(n)
        return n
    if t == 'ref':
        return done[r[1] % len(done)] if done else r[1]
    if t == 'list':
        return [build(x, nodes, done) for x in r[1]]
    if t == 'tuple':
        return tuple(build(x, nodes, done) for x in r[1])
    if t == 'dict':
        return {k: build(v, nodes, done) for k, v in r[1]}
    if t == 'struct':       # a struct sequence: its printer reads the field names from the repr and may fall back to a plain tuple
        return _time.struct_time((build(r[1], nodes, done), 1, 2, 3, 4, 5, 6, 7, 8))
    if t == 'ntuple':
        return Pt(build(r[1], nodes, done), 1)
    if t == 'deque':
        return _c.deque([build(r[1], nodes, done), 1], maxlen=r[2])
    if t == 'ns':
        return _types.SimpleNamespace(a=build(r[1], nodes, done), b=1)
    if t == 'odict':
        return _c.OrderedDict([('k', build(r[1], nodes, done)), ('z', 1)])
    if t == 'cmt':
        return comment(build(r[2], nodes, done), r[1])
    if t == 'tcmt':
        return trailing_comment(build(r[2], nodes, done), r[1])
    if t == 'int':
        return r[1]
    if t == 'str':
        return r[1]
    raise ValueError(r)


def replace(obj, victims):
    """copy of the structure with the victim objects replaced by ReprLeaf(repr(victim)); victims: set of ids, or
    {id: repr text taken while the fault was active}"""
    from .. import faults
    from prettyprinter.prettyprinter import _CommentedValue, _TrailingCommentedValue
    if isinstance(obj, faults.FBase):
        if id(obj) in victims:
            return faults.ReprLeaf(victims[id(obj)] if isinstance(victims, dict) and isinstance(victims[id(obj)], str) else repr(obj))
        n = type(obj)(obj.tag, [replace(c, victims) for c in obj.children])
        return n
    if isinstance(obj, list):
        return [replace(x, victims) for x in obj]
    if isinstance(obj, _time.struct_time):
        return _time.struct_time(tuple(replace(x, victims) for x in obj))
    if isinstance(obj, Pt):
        return Pt(*[replace(x, victims) for x in obj])
    if isinstance(obj, _c.deque):
        return _c.deque([replace(x, victims) for x in obj], maxlen=obj.maxlen)
    if isinstance(obj, _types.SimpleNamespace):
        return _types.SimpleNamespace(**{k: replace(v, victims) for k, v in obj.__dict__.items()})
    if isinstance(obj, _c.OrderedDict):
        return _c.OrderedDict((k, replace(v, victims)) for k, v in obj.items())
    if isinstance(obj, tuple):
        return tuple(replace(x, victims) for x in obj)
    if isinstance(obj, dict):
        return {k: replace(v, victims) for k, v in obj.items()}
    if isinstance(obj, _CommentedValue):
        return _CommentedValue(replace(obj.value, victims), obj.comment)
    if isinstance(obj, _TrailingCommentedValue):
        return _TrailingCommentedValue(replace(obj.value, victims), obj.comment)
    return obj


def _wrap(child, how, i):
    if how == 'direct':
        return child
    if how == 'list':
        return ['list', [['int', i], child]]
    if how == 'dictval':
        return ['dict', [['k%d' % i, child], ['z', ['int', i]]]]
    if how == 'tcmt':
        return ['tcmt', 'trailing %d' % i, child]
    if how == 'cmt':
        return ['cmt', 'note %d' % i, child]
    if how == 'tuple':
        return ['tuple', [child]]
    if how in ('struct', 'ntuple', 'ns', 'odict'):
        return [how, child]
    if how == 'deque':
        return ['deque', child, 5 if i % 2 else None]


def _shapes(n):
    """ordered trees with n nodes as nested lists of children"""
    if n == 1:
        yield []
        return
    # forests of n-1 nodes
    def forests(m):
        if m == 0:
            yield []
            return
        for first in range(1, m + 1):
            for t in _shapes(first):
                for rest in forests(m - first):
                    yield [t] + rest
    yield from forests(n - 1)


def _instantiate(shape, wrap_pat, kind_pat, counter):
    i = counter[0]
    counter[0] += 1
    kind = 'fn' if kind_pat == 0 else 'fn2' if kind_pat == 1 else ('fn', 'fn3', 'fn2', 'fn4', 'fn5', 'fn6', 'fn7')[i % 7]
    kids = []
    for ch in shape:
        c = _instantiate(ch, wrap_pat, kind_pat, counter)
        j = counter[0]
        kids.append(_wrap(c, WRAPS[(j * (wrap_pat + 1) + wrap_pat) % len(WRAPS)], j))
    return [kind, 't%d' % i, kids]


def enumerate_cases(tier):
    maxn = 5 if tier == 'quick' else 6
    for n in range(1, maxn + 1):
        for shape in _shapes(n):
            for wp in range(4):
                for kp in range(3):
                    tree = _instantiate(shape, wp, kp, [0])
                    for top in ('direct', 'list', 'tcmt'):
                        r = _wrap(tree, top, 99)
                        if tier == 'quick' and top != 'direct' and (wp + kp) % 2:
                            continue
                        for i in range(n):
                            # a printer returning a non-document at every position (must surface as ValueError)
                            if tier == 'thorough' or (wp + kp + i) % 2 == 0:
                                yield {'tree': r, 'badret': [i, ('int', 'none', 'bytes')[(i + wp) % 3]]}
                            for e_i, exc in enumerate(EXCS):
                                if tier == 'quick' and n >= 4 and (e_i + i + wp) % 3:
                                    continue
                                for phase in ('before', 'after'):
                                    yield {'tree': r, 'faults': [[i, exc, phase]]}


def fixed_cases():
    t = ['list', [['tcmt', 't', ['fn', 'x', []]], ['int', 1]]]
    yield {'tree': t, 'faults': [[0, 'ValueError', 'before']]}                       # D11
    yield {'tree': ['list', [['tcmt', 't', ['fn2', 'x', []]], ['int', 1]]], 'faults': [[0, 'KeyError', 'after']]}
    yield {'tree': ['fn', 'top', []], 'badret': [0, 'int']}
    # a failing printer on a value whose repr has several lines, nested: the repr goes in unchanged
    for exc in ('ValueError', 'KeyError'):
        yield {'tree': ['list', [['dict', [['k', ['fn', 'two\nlines', []]]]], ['fn2', 'three\n  indented\nlines', [['int', 1]]], ['int', 0]]], 'faults': [[0, exc, 'before'], [1, exc, 'after']]}
        yield {'tree': ['fn', 'outer', [['list', [['fn', 'inner\nrepr', []], ['int', 1]]]]], 'faults': [[1, exc, 'before']]}
    for exc in ('ValueError', 'TypeError', 'Injected'):
        for phase in ('before', 'after'):
            # a node whose printer is registered through a predicate (a second, later registered predicate accepts it too)
            yield {'tree': ['fn7', 'p', []], 'faults': [[0, exc, phase]]}
            yield {'tree': ['list', [['fn7', 'p', [['int', 1]]], ['fn', 'q', [['fn7', 'r', []]]], ['int', 2]]], 'faults': [[0, exc, phase]]}
            yield {'tree': ['dict', [['k', ['fn7', 'p', []]], ['z', ['fn6', 'o', []]]]], 'faults': [[0, exc, phase], [1, exc, phase]]}
    # a fault on one invocation only of a printer that runs twice (commented dict value)
    for nth in (1, 2):
        for w_text in ('c', 'a comment that is long enough to be put above the value it belongs to'):
            for phase in ('before', 'after'):
                yield {'tree': ['dict', [['k', ['cmt', w_text, ['fn', 'a', [['int', 1]]]]], ['z', ['int', 0]]]], 'faults': [[0, 'ValueError', phase, nth]]}
                yield {'tree': ['list', [['dict', [['k', ['cmt', w_text, ['fn2', 'a', []]]]]], ['fn', 'b', []]]], 'faults': [[0, 'KeyError', phase, nth]]}
    # the same failing object referenced twice (sharing, no cycle)
    for exc in ('ValueError', 'TypeError'):
        for phase in ('before', 'after'):
            yield {'tree': ['list', [['fn', 'a', [['fn', 'b', []]]], ['ref', 0], ['fn', 'c', [['ref', 0], ['ref', 1]]]]], 'faults': [[1, exc, phase]]}
            yield {'tree': ['fn', 'r', [['list', [['fn2', 's', []], ['tcmt', 't', ['ref', 0]]]], ['dict', [['k', ['ref', 0]]]]]], 'faults': [[1, exc, phase]]}
    yield {'tree': ['list', [['fn', 'a', [['fn', 'b', []]]], ['int', 1]]], 'badret': [1, 'int']}   # D12
    yield {'tree': ['dict', [['k', ['list', [['fn', 'a', []]]]]]], 'badret': [0, 'none']}
    yield {'tree': ['list', [['tcmt', 'tc', ['list', [['fn2', 'a', []]]]]]], 'badret': [0, 'bytes']}
    # below a value that carries a trailing comment and whose printer does not take one
    yield {'tree': ['list', [['tcmt', 'tc', ['fn2', 'outer', [['fn', 'inner', []]]]], ['int', 1]]], 'badret': [1, 'int']}
    yield {'tree': ['tcmt', 'tc', ['fn2', 'outer', [['list', [['fn2', 'inner', []]]]]]], 'badret': [1, 'none']}


def strategy(tier):
    from hypothesis import strategies as st
    leaf = st.one_of(st.integers(0, 9).map(lambda i: ['int', i]), st.sampled_from(['a b', 'x']).map(lambda s: ['str', s]),
                     st.integers(0, 5).map(lambda i: ['ref', i]))
    tags = st.sampled_from(['a', 'b', 'c', 'long tag with words', 'two\nlines', 'three\n  indented\nlines'])

    def ext(ch):
        wrapped = st.one_of(ch, ch, st.tuples(st.sampled_from(['c1', 'c two words', 'x\ny']), ch).map(lambda p: ['cmt', p[0], p[1]]),
                            st.tuples(st.sampled_from(['t1', 't two']), ch).map(lambda p: ['tcmt', p[0], p[1]]))
        return st.one_of(
            st.tuples(st.sampled_from(['fn', 'fn', 'fn2', 'fn3', 'fn4', 'fn5', 'fn6', 'fn7']), tags, st.lists(wrapped, max_size=3)).map(list),
            st.tuples(st.sampled_from(['fn', 'fn', 'fn2', 'fn3', 'fn4', 'fn5', 'fn6', 'fn7']), tags, st.lists(wrapped, max_size=3)).map(list),
            st.lists(wrapped, max_size=3).map(lambda xs: ['list', xs]),
            st.lists(wrapped, max_size=2).map(lambda xs: ['tuple', xs]),
            st.tuples(st.sampled_from(['struct', 'ntuple', 'ns', 'odict']), ch).map(list),
            st.tuples(ch, st.sampled_from([None, 5])).map(lambda p: ['deque', p[0], p[1]]),
            gens.named_values(st, ['k', 'kk', 'key three'], wrapped, 3).map(lambda kv: ['dict', kv]),
        )
    tree = st.recursive(st.one_of(leaf, st.tuples(st.sampled_from(['fn', 'fn2', 'fn3', 'fn4', 'fn5', 'fn6', 'fn7']), tags, st.just([])).map(list)), ext, max_leaves=10)
    fault = st.tuples(st.integers(0, 12), st.sampled_from(EXCS), st.sampled_from(['before', 'after'])).map(list)
    nth_fault = st.tuples(st.integers(0, 12), st.sampled_from(EXCS), st.sampled_from(['before', 'after']), st.sampled_from([1, 2])).map(list)
    faulty = st.fixed_dictionaries({'tree': tree, 'faults': st.one_of(st.lists(fault, min_size=1, max_size=2), st.lists(nth_fault, min_size=1, max_size=1))})
    bad = st.fixed_dictionaries({'tree': tree, 'badret': st.tuples(st.integers(0, 12), st.sampled_from(['int', 'none', 'bytes', 'list'])).map(list)})
    return st.one_of(faulty, faulty, faulty, bad)


def _ast_with_reprs(text):
    import ast
    import re
    src = re.sub(r'<(FNode2?|FLazySub|FLazyBase|FObjNode|FPredNode) ([^<>]*)>', lambda m: '__R__(%r, %r)' % (m.group(1), m.group(2)), text)
    src = re.sub(r'<([\w.]+) object at 0x([0-9a-f]+)>', lambda m: '__R__(%r, %r)' % (m.group(1), m.group(2)), src)
    try:
        return ast.dump(ast.parse('(' + src + '\n)', mode='eval'))
    except SyntaxError:
        return None


BADRET = {'int': (5,), 'none': (None,), 'bytes': (b'',), 'list': (['x'],)}


def _has_sibling(root, victim):
    """victim is below the top level and some healthy sibling exists (container neighbours count)"""
    from .. import faults
    from prettyprinter.prettyprinter import unwrap_comments

    def kids(o):
        o = unwrap_comments(o)[0]
        if isinstance(o, faults.FBase):
            return [unwrap_comments(c)[0] for c in o.children] + ['tag']
        if isinstance(o, (list, tuple, _c.deque)):
            return [unwrap_comments(c)[0] for c in o]
        if isinstance(o, _types.SimpleNamespace):
            return [unwrap_comments(c)[0] for c in o.__dict__.values()]
        if isinstance(o, dict):
            return [unwrap_comments(c)[0] for c in o.values()]
        return []

    def rec(o):
        ks = kids(o)
        for k in ks:
            if k is victim and len(ks) > 1:
                return True
        return any(rec(k) for k in ks if not isinstance(k, str))
    return rec(root)


def oracle(case):
    from .. import faults
    nodes = []
    root = build(case['tree'], nodes)
    if not nodes:
        return core.skip('no-instrumented-node')
    base = values.pp(root, width=60)
    if base.exc is not None or base.fallback_warnings():
        return core.viol('healthy-print-failed', repr(base.exc or base.fallback_warnings()[0])[:400])
    if 'badret' in case:
        i, what = case['badret']
        victim = nodes[i % len(nodes)]
        victim.badret = BADRET[what]
        p = values.pp(root, width=60)
        victim.badret = None
        if not isinstance(p.exc, ValueError):
            return core.viol('bad-return-not-reported', 'printer returned %r: expected ValueError, got %s\n%s' % (
                BADRET[what][0], repr(p.exc) if p.exc else 'text', (p.text or '')[:300]))
        again = values.pp(root, width=60)
        if again.text != base.text:
            return core.viol('later-print-affected', '%r vs %r' % (again.text, base.text))
        return core.ok(victim is not nodes[0], ['badret', what])
    victims = {}
    nth_mode = False
    for f in case['faults']:
        i, exc, phase = f[0], f[1], f[2]
        nth = f[3] if len(f) > 3 else None
        if nth is not None and '"ref"' in core.canonical(case['tree']):
            nth = None      # with several references to one node "the n-th invocation" is not tied to one occurrence
        n = nodes[i % len(nodes)]
        if id(n) not in victims:
            victims[id(n)] = n
            n.fault = (exc, phase, nth)
            nth_mode = nth_mode or nth is not None
    try:
        for n in nodes:
            n.calls = 0
            n.fired = 0
        # these trees need well under 200 frames; a fallback that re-enters the printer without bound shows as
        # RecursionError, with a lowered limit after little work ("pformat still returns" is violated)
        import sys
        import inspect
        old_limit = sys.getrecursionlimit()
        sys.setrecursionlimit(len(inspect.stack(0)) + 400)
        try:
            p = values.pp(root, width=60)
        except RecursionError:
            return core.viol('exception-escaped', 'RecursionError while printing a tree of %d instrumented nodes with faults %r' % (len(nodes), case['faults']))
        finally:
            sys.setrecursionlimit(old_limit)
        invoked = [n for n in victims.values() if n.fired > 0]
        # a commented dict value is rendered twice, so a printer may legitimately run (and fail) twice
        ncalls = sum(n.fired for n in victims.values())
        # "rendered with its repr": the repr at the time of the failure (with __repr__ = pretty_repr it depends on the fault)
        import warnings as _w
        with _w.catch_warnings():
            _w.simplefilter('ignore')
            reprs = {id(n): (repr(n) if isinstance(n, faults.FReprNode) and not nth_mode else None) for n in victims.values()}
    finally:
        faults_set = {id(n): n.fault for n in victims.values()}
        for n in victims.values():
            n.fault = None
    labels = sorted({f[0] for f in faults_set.values()}) + sorted({f[1] for f in faults_set.values()})
    if p.exc is not None:
        return core.viol('exception-escaped', '%r' % (p.exc,), labels)
    expected_root = replace(root, reprs)
    q = values.pp(expected_root, width=60)
    if q.exc is not None:
        raise core.HarnessError('replacement tree failed to print: %r' % (q.exc,))
    if nth_mode:
        # only one of several invocations of the same printer failed (a commented dict value is rendered once for the
        # end-of-line layout and once for the comment-above layout): the layout shows one rendering or the other
        # (which one decides the layout too, so the comparison is on the syntax tree: comments and layout aside, the
        # output must be the healthy one or the one with exactly the faulted value replaced by its repr)
        ok_texts = (base.text,) if ncalls == 0 else (base.text, q.text)
        if p.text not in ok_texts:
            dumps = [_ast_with_reprs(t) for t in ok_texts]
            got = _ast_with_reprs(p.text)
            if got is None or got not in dumps:
                return core.viol('not-contained', 'faults %r\noutput\n%s\nexpected (up to layout) the healthy output or\n%s' % (
                    case['faults'], p.text[:700], q.text[:700]), labels)
    elif p.text != q.text:
        return core.viol('not-contained', 'faults %r\noutput\n%s\nexpected (faulted value as repr leaf)\n%s' % (
            case['faults'], p.text[:700], q.text[:700]), labels)
    fw = p.fallback_warnings()
    # one warning per failing invocation is what the code does; the statement only asks that a warning naming the
    # printer is issued: none for a fault that was never reached, at least one otherwise, never more than invocations
    if (len(fw) == 0) != (ncalls == 0) or len(fw) > ncalls:
        return core.viol('warning-count', '%d fallback warnings for %d failing printer invocations' % (len(fw), ncalls), labels)
    for n in invoked:
        name = {'FNode2': 'ppv.faults.pretty_fnode2', 'FLazySub': 'ppv.faults.pretty_flazy', 'FDictNode': 'ppv.faults.pretty_fdict', 'FReprNode': 'ppv.faults.pretty_freprnode', 'FObjNode': 'ppv.faults.ObjPrinter', 'FPredNode': 'ppv.faults.pretty_fpred'}.get(type(n).__name__, 'ppv.faults.pretty_fnode')
        if not any(name + ',' in w or name + ' ' in w or name in w.split() for w in fw) and not any(name in w for w in fw):
            return core.viol('warning-does-not-name-printer', fw[0][:300], labels)
    again = values.pp(root, width=60)
    if again.text != base.text or again.fallback_warnings():
        return core.viol('later-print-affected', 'after the fault:\n%s\nbefore:\n%s' % ((again.text or '')[:400], base.text[:400]), labels)
    nontrivial = any(_has_sibling(root, n) for n in victims.values())
    if len(victims) > 1:
        labels.append('pair')
    return core.ok(nontrivial, labels)
