"""C16 - colored output is the plain output plus well-nested styling."""
import io

from .. import core, values, docterm, sgr, gens

ID = 'C16'
LEVEL = 'exploration'
RULE = ('two families. (value) value recipe (strings with escapes, bytes, numbers, constants, commented values, calls, '
        'stdlib instances incl. timedelta operators) x (width, indent) x every style of the installed pygments plus the two '
        'bundled styles (given as the class, by the bundled name, or as the default style set through set_default_style / set_default_config) x colour mode in {true colour, 256, 8}, written by cpprint(stream=StringIO, end=...). (doc) document '
        'term with annotate() carrying syntax tokens nested up to depth 3 and opaque non-token annotations inside/outside '
        'them (opaque objects, plain ints equal to Token members, unhashable values, None), text fragments ending in tabs / form feeds, laid out and written by colored_render_to_stream. Exhaustive: a fixed corpus x every style x every mode, and '
        'every Token member alone, and for every style a token the style may leave plain (punctuation, operator, variable name, escape) nested in a styled token; random: Hypothesis values/terms x styles. Oracle: an independent SGR decoder - text with '
        'escapes removed == plain rendering of the same SDoc stream (+ end); rendering raises for no style; for every '
        'character the decoded (fg, bg, bold, italic, underline) state == the state of the innermost enclosing Token '
        'annotation (SDoc push/pop structure; style.style_for_token through a name-derived token table; colorful as trusted '
        'encoder on a private palette) and the reset state outside any token; final state is reset. non-trivial = '
        '>= 2 nested token annotations or a non-token annotation inside a token; distinct by case hash')
ASSUMPTIONS = ['colorful (own instance) is the trusted SGR encoder for a style attribute set',
               'Token NAME_x maps to the pygments token of the same dotted name (LITERAL_STRING -> String, NUMBER_INT -> Number.Integer, NUMBER_BINARY -> Number.Bin)']
BUDGET = {'quick': {'random': 5000, 'shards': 16}, 'thorough': {'random': 200000, 'shards': 16}}

MODES = ['true', '256', '8']
RAW_ANNS = ['int3', 'int6', 'int14', 'list', 'dict', 'str', 'none']
TOKEN_NAMES = ['KEYWORD_CONSTANT', 'NAME_BUILTIN', 'NAME_ENTITY', 'NAME_FUNCTION', 'NAME_VARIABLE', 'LITERAL_STRING',
               'STRING_AFFIX', 'STRING_ESCAPE', 'NUMBER_BINARY', 'NUMBER_FLOAT', 'NUMBER_INT', 'OPERATOR', 'PUNCTUATION',
               'COMMENT_SINGLE']
CORPUS = [
    ['list', [['str', 'a\n\\ "q" \x00é'], ['bytes', '00ff27'], ['int', -3], ['float', '1.5'], ['float', 'nan'], ['none'], ['bool', True], ['ell']]],
    ['dict', [[['str', 'k'], ['cmt', 'note with words', ['tuple', [['int', 1]]]]], [['int', 2], ['fset', [['int', 1]]]]]],
    ['std', 'timedelta', [-800, 3661, 1001]],
    ['call', 'box', [['str', 'lorem ipsum dolor sit amet consectetur adipiscing elit sed do'], ['sub', 'int', 'plain', ['int', 7]]], [['kw', ['std', 'uuid', '0' * 32]]]],
    ['tcmt', 'trailing words', ['list', [['std', 'datetime', [2020, 1, 2, 3, 4, 5, 6], ['utc'], 1], ['std', 'enum', 'Color', 'RED']]]],
]


def all_token_names():
    """every member the package's Token enum has NOW (not only the ones this harness knows)"""
    from prettyprinter.syntax import Token
    return sorted(Token.__members__)


def style_names():
    from pygments.styles import get_all_styles
    return sorted(get_all_styles()) + ['@light', '@dark']


def get_style(name):
    if name == '@light':
        from prettyprinter.color import GitHubLightStyle
        return GitHubLightStyle
    if name == '@dark':
        from pygments.styles import get_style_by_name
        return get_style_by_name('monokai')
    from pygments.styles import get_style_by_name
    return get_style_by_name(name)


def pygments_token(tok):
    from pygments import token as T
    table = {
        'KEYWORD_CONSTANT': T.Keyword.Constant, 'NAME_BUILTIN': T.Name.Builtin, 'NAME_ENTITY': T.Name.Entity,
        'NAME_FUNCTION': T.Name.Function, 'NAME_VARIABLE': T.Name.Variable, 'LITERAL_STRING': T.String,
        'STRING_AFFIX': T.String.Affix, 'STRING_ESCAPE': T.String.Escape, 'NUMBER_BINARY': T.Number.Bin,
        'NUMBER_FLOAT': T.Number.Float, 'NUMBER_INT': T.Number.Integer, 'OPERATOR': T.Operator,
        'PUNCTUATION': T.Punctuation, 'COMMENT_SINGLE': T.Comment.Single,
    }
    return table.get(tok.name)       # None: a token this harness does not know (its style is not judged)


def enumerate_cases(tier):
    names = style_names()
    for si, sname in enumerate(names):
        for mode in MODES:
            for vi, v in enumerate(CORPUS):
                if tier == 'quick' and (si + vi) % 2 and mode != 'true':
                    continue
                yield {'kind': 'value', 'v': v, 'width': 30 if vi % 2 else 79, 'indent': 4, 'style': sname, 'mode': mode, 'end': '\n',
                       'how': ('arg', 'default', 'config', 'name')[(si + vi) % 4]}
            for tn in all_token_names():
                if tier == 'quick' and mode != 'true':
                    continue
                yield {'kind': 'doc', 't': ['ann', ['tok', tn], ['t', 'x']], 'w': 20, 'style': sname, 'mode': mode}
    # non-token annotation values of every flavour inside and outside a token; text ending in non-space whitespace
    for k in RAW_ANNS:
        for sname in ('@dark', 'default', 'bw'):
            yield {'kind': 'doc', 't': ['cat', [['ann', ['raw', k], ['t', 'p']], ['ann', ['tok', 'NUMBER_INT'], ['cat', [['t', 'a'], ['ann', ['raw', k], ['t', 'b']], ['t', 'c']]]]]],
                   'w': 20, 'style': sname, 'mode': 'true'}
    for txt in ('w\t', 'v \t ', 'u\x0c', '\t'):
        yield {'kind': 'doc', 't': ['cat', [['ann', ['tok', 'COMMENT_SINGLE'], ['t', txt]], ['hard'], ['t', txt], ['t', ' '], ['hard'], ['t', 'end' + txt]]], 'w': 20,
               'style': '@dark', 'mode': 'true'}
    # token > non-token > token (> non-token > token): the enclosing token's style comes back after the inner token ends,
    # through any number of non-token annotations in between
    toks = ['NUMBER_INT', 'LITERAL_STRING', 'COMMENT_SINGLE', 'NAME_FUNCTION', 'STRING_ESCAPE']
    for ai, A in enumerate(toks):
        for bi, B in enumerate(toks):
            if A == B:
                continue
            for ki, k in enumerate(RAW_ANNS):
                if tier == 'quick' and (ai + bi + ki) % 3:
                    continue
                inner = ['ann', ['raw', k], ['cat', [['t', 'n'], ['ann', ['tok', B], ['t', 'b']], ['t', 'm']]]]
                yield {'kind': 'doc', 't': ['ann', ['tok', A], ['cat', [['t', 'a'], inner, ['t', 'c']]]], 'w': 20, 'style': ('@dark', 'default', 'murphy')[ki % 3], 'mode': 'true'}
                deeper = ['ann', ['raw', k], ['cat', [['ann', ['tok', B], ['cat', [['t', 'b'], ['ann', 0, ['ann', ['tok', A], ['t', 'd']]], ['t', 'e']]]], ['hard'], ['t', 'm']]]]
                yield {'kind': 'doc', 't': ['ann', ['tok', A], ['cat', [['t', 'a'], deeper, ['t', 'c']]]], 'w': 20, 'style': ('@dark', 'default', 'murphy')[ki % 3], 'mode': 'true'}
    # siblings: a token directly followed / preceded by a non-token annotation, another token, or plain text - in every order,
    # at the top level and inside an enclosing token
    import itertools
    sib = {'tokA': ['ann', ['tok', 'NUMBER_INT'], ['t', 'a']], 'tokB': ['ann', ['tok', 'LITERAL_STRING'], ['t', 'b']], 'text': ['t', 'x'],
           'raw': ['ann', ['raw', 'int3'], ['t', 'r']], 'rawtok': ['ann', ['raw', 'list'], ['ann', ['tok', 'COMMENT_SINGLE'], ['t', 'c']]],
           'raw0': ['ann', 0, ['t', 'o']]}
    for combo in itertools.permutations(sorted(sib), 3):
        t = ['cat', [sib[k] for k in combo]]
        for style in ('@dark', 'default'):
            yield {'kind': 'doc', 't': t, 'w': 40, 'style': style, 'mode': 'true'}
        yield {'kind': 'doc', 't': ['ann', ['tok', 'NAME_FUNCTION'], ['cat', [['t', '<']] + [sib[k] for k in combo] + [['t', '>']]]], 'w': 40, 'style': '@dark', 'mode': 'true'}
    # lines that hold no text fragment at all (consecutive / final hardlines, an annotated empty text)
    for t in (['cat', [['t', 'a'], ['hard'], ['hard'], ['t', 'b']]], ['cat', [['t', 'a'], ['hard']]],
              ['nest', 2, ['cat', [['hard'], ['ann', ['tok', 'NUMBER_INT'], ['t', '']], ['hard'], ['ann', ['tok', 'COMMENT_SINGLE'], ['cat', [['t', 'c'], ['hard'], ['hard'], ['t', 'd']]]]]]]):
        for sname in ('@dark', 'default'):
            yield {'kind': 'doc', 't': t, 'w': 20, 'style': sname, 'mode': 'true'}
    for sname in ('@dark', 'default'):
        yield {'kind': 'value', 'v': ['dict', []], 'width': 1, 'indent': 4, 'style': sname, 'mode': 'true', 'end': '\n'}
    # a token most styles leave plain (punctuation, operator, variable name) inside a styled token: its characters are plain
    for sname in names:
        for outer, inner_tok in (('LITERAL_STRING', 'PUNCTUATION'), ('COMMENT_SINGLE', 'OPERATOR'), ('NUMBER_INT', 'NAME_VARIABLE'), ('NAME_FUNCTION', 'STRING_ESCAPE')):
            yield {'kind': 'doc', 't': ['ann', ['tok', outer], ['cat', [['t', 'a'], ['ann', ['tok', inner_tok], ['t', ',']], ['t', 'c']]]], 'w': 20, 'style': sname, 'mode': 'true'}
    # nested annotations, D14 witness
    d14 = ['ann', ['tok', 'NUMBER_INT'], ['cat', [['t', 'a'], ['ann', 0, ['t', 'b']], ['t', 'c']]]]
    for sname in names:
        yield {'kind': 'doc', 't': d14, 'w': 20, 'style': sname, 'mode': 'true'}


def strategy(tier):
    S = values.strategies()
    st = S['st']
    names = style_names()
    toks = [['tok', n] for n in TOKEN_NAMES]
    val = st.fixed_dictionaries({
        'kind': st.just('value'), 'v': gens.any_value(S, comments=True),
        'width': st.sampled_from([10, 30, 79]), 'indent': st.sampled_from([2, 4]),
        'style': st.sampled_from(names), 'mode': st.sampled_from(MODES), 'end': st.sampled_from(['\n', '', 'END']),
        'sort': st.booleans(), 'how': st.sampled_from(['arg', 'arg', 'name', 'default', 'config']),
    })
    doc = st.fixed_dictionaries({
        'kind': st.just('doc'),
        't': docterm.term_strategy(classic=False, max_leaves=10, ann_keys=toks + toks + [0, 1] + [['raw', k] for k in RAW_ANNS],
                                   texts=['a', 'bb', 'ccc', 'x', ' ', '', ' y', 'z ', 'w\t', '\t', 'v \t ', 'u\x0c']),
        'w': st.sampled_from([5, 20, 60]), 'style': st.sampled_from(names), 'mode': st.sampled_from(MODES),
    })
    return st.one_of(val, doc)


def expected_states(sdocs, style, mode):
    """per character of the raw (untrimmed) stream text: (char, state); plus nesting statistics"""
    from prettyprinter import sdoctypes
    from prettyprinter.syntax import Token
    out = []
    stack = []
    maxtok = 0
    nontok_inside = False
    cur = sgr.RESET
    for x in sdocs:
        if isinstance(x, str):
            out.extend((ch, cur) for ch in x)
        elif isinstance(x, sdoctypes.SLine):
            out.extend((ch, cur) for ch in '\n' + ' ' * x.indent)
        elif isinstance(x, sdoctypes.SAnnotationPush):
            stack.append(x.value)
            if isinstance(x.value, Token):
                maxtok = max(maxtok, sum(1 for a in stack if isinstance(a, Token)))
            elif any(isinstance(a, Token) for a in stack):
                nontok_inside = True
        elif isinstance(x, sdoctypes.SAnnotationPop):
            stack.pop()
        else:
            continue
        inner = None
        for a in reversed(stack):
            if isinstance(a, Token):
                inner = a
                break
        if inner is None:
            cur = sgr.RESET
        else:
            pt = pygments_token(inner)
            cur = None if pt is None else sgr.expected_state(style.style_for_token(pt), mode)
    return out, maxtok, nontok_inside


def oracle(case):
    import colorful
    import colorful.terminal as term
    from prettyprinter.render import default_render_to_str
    style = get_style(case['style'])
    mode = case['mode']
    cm = {'true': term.TRUE_COLORS, '256': term.ANSI_256_COLORS, '8': term.ANSI_8_COLORS}[mode]
    old = colorful.colorful.colormode
    colorful.colorful.colormode = cm
    try:
        if case['kind'] == 'value':
            from prettyprinter import cpprint, python_to_sdocs
            v = values.build(case['v'])
            cfg = dict(indent=case['indent'], width=case['width'], depth=None, ribbon_width=case['width'],
                       max_seq_len=1000, sort_dict_keys=bool(case.get('sort')))
            import warnings
            with warnings.catch_warnings():
                warnings.simplefilter('ignore')
                sdocs = list(python_to_sdocs(v, **cfg))
                s = io.StringIO()
                # how the style reaches the renderer: as the class, by its bundled name, or as the default style
                # (set_default_style / set_default_config(style=...)) with no style argument
                how = case.get('how', 'arg')
                if how == 'name' and case['style'] not in ('@dark', '@light'):
                    how = 'arg'
                import prettyprinter.color as _color
                saved_default = _color.default_style
                kw = {}
                try:
                    if how == 'arg':
                        kw['style'] = style
                    elif how == 'name':
                        kw['style'] = case['style'][1:]
                    elif how == 'default':
                        from prettyprinter import set_default_style
                        set_default_style(style)
                    else:
                        from prettyprinter import set_default_config
                        set_default_config(style=style)
                    cpprint(v, stream=s, indent=case['indent'], width=case['width'], ribbon_width=case['width'],
                            end=case['end'], sort_dict_keys=bool(case.get('sort')), **kw)
                except Exception as e:
                    return core.viol('render-raised', 'style %s (%s) mode %s: %r' % (case['style'], how, mode, e), [case['style']])
                finally:
                    _color.default_style = saved_default
            written = s.getvalue()
            end = case['end']
        else:
            from prettyprinter.layout import layout_smart
            from prettyprinter.color import colored_render_to_stream
            try:
                doc, _ = docterm.build(case['t'])
                sdocs = list(layout_smart(doc, width=case['w'], ribbon_frac=1.0))
            except Exception as e:
                return core.skip('layout-raised')   # C04's business
            s = io.StringIO()
            try:
                colored_render_to_stream(s, list(sdocs), style=style)
            except Exception as e:
                return core.viol('render-raised', 'style %s mode %s: %r' % (case['style'], mode, e), [case['style']])
            written = s.getvalue()
            end = ''
    finally:
        colorful.colorful.colormode = old
    try:
        plain_got, states, final = sgr.decode(written)
    except sgr.BadEscape as e:
        return core.viol('bad-escape-sequence', repr(e))
    plain = default_render_to_str(list(sdocs)) + end
    if plain_got != plain:
        return core.viol('text-differs', 'stripped %r\nplain    %r' % (plain_got[:400], plain[:400]), [case['style']])
    if final != sgr.RESET:
        return core.viol('not-reset-at-end', 'final state %r' % (final,), [case['style']])
    exp, maxtok, nontok_inside = expected_states(sdocs, style, mode)
    # align: every plain line is a prefix of the raw line
    raw_lines, cur = [], []
    for ch, stt in exp:
        if ch == '\n':
            raw_lines.append(cur)
            cur = []
        cur.append((ch, stt))
    raw_lines.append(cur)
    body = plain[:len(plain) - len(end)] if end else plain
    plain_lines = body.split('\n')
    if len(plain_lines) != len(raw_lines):
        return core.skip('line-structure')      # renderer trimming is C04's business
    pos = 0
    for li, (pl, rl) in enumerate(zip(plain_lines, raw_lines)):
        rl_chars = rl if li == 0 else rl[1:]
        if li > 0:
            # the newline itself
            want = rl[0][1]
            if want is not None and states[pos] != want:
                return core.viol('wrong-style', 'newline before line %d: %r, expected %r' % (li, states[pos], want), [case['style']])
            pos += 1
        for ci, ch in enumerate(pl):
            want = rl_chars[ci][1]
            if want is not None and states[pos] != want:
                return core.viol('wrong-style', 'char %r (line %d col %d) has state %r, innermost token expects %r; style %s mode %s' % (
                    ch, li, ci, states[pos], want, case['style'], mode), [case['style']])
            pos += 1
    for k in range(pos, len(states)):
        if states[k] != sgr.RESET:
            return core.viol('end-string-styled', repr(states[k]))
    labels = [case['kind'], 'style:' + case['style'], 'mode:' + mode]
    return core.ok(maxtok >= 2 or nontok_inside, labels)
