"""C08 - instances of subclasses of built-in types keep their class."""
import ast
import types

from .. import core, eqv, values, vtypes, gens

ID = 'C08'
LEVEL = 'exploration'
RULE = ('case = (instance of a subclass of list/tuple/set/frozenset/dict/str/bytes/int/float from the family {plain, '
        'overriding __repr__, overriding __str__} plus IntEnum and (str, Enum) members, placement in {top, sole element, '
        'first of two, dict key, dict value, SimpleNamespace kwarg, pretty_call arg}, width, indent). Exhaustive: every '
        'class x boundary values (empty, one element, long; empty str, text that must be split; 0, negative, 10^20; '
        '+-0.0, inf, nan) x every placement x every width 1..L+4 (L = one-line length); random: Hypothesis base values x '
        'widths. Oracle: eval with the module in scope gives type(x) is the subclass and a type-strictly equal base '
        'value; the AST at the placement is Call(<dotted qualname>, [one positional literal]) whose argument alone '
        'evaluates to the base value (no argument allowed for an empty value). non-trivial = non-empty value, or a '
        'str/bytes literal that was split / moved to its own line; distinct by case hash')
ASSUMPTIONS = ['qualified names resolve through the importable module ppv.vtypes']
BUDGET = {'quick': {'random': 6000, 'shards': 16}, 'thorough': {'random': 300000, 'shards': 16}}

PLACES = ['top', 'sole', 'first', 'key', 'val', 'ns', 'call']

BOUNDARY = {
    'list': [['list', []], ['list', [['int', 1]]], ['list', [['int', 1], ['str', 'a b'], ['float', '2.5'], ['list', []], ['none']]]],
    'tuple': [['tuple', []], ['tuple', [['int', 1]]], ['tuple', [['int', 1], ['str', 'ab'], ['tuple', []]]]],
    'set': [['set', []], ['set', [['int', 1]]], ['set', [['int', 1], ['str', 'ab'], ['int', 300]]]],
    'frozenset': [['fset', []], ['fset', [['int', 1]]], ['fset', [['int', 1], ['str', 'ab'], ['int', 300]]]],
    'dict': [['dict', []], ['dict', [[['int', 1], ['int', 2]]]], ['dict', [[['str', 'b'], ['int', 1]], [['str', 'a'], ['int', 2]]]],
             ['dict', [[['str', 'a'], ['int', 1]], [['str', 'b'], ['list', [['int', 1]]]], [['int', 3], ['none']]]]],
    'str': [['str', ''], ['str', 'a'], ['str', 'abcdefghij klmnop'], ['str', 'Epsilon Zeta eta THETA iota kappa lambda mu nu xi omicron pi rho sigma tau'], ['str', "it's \"q\" \\ \n"], ['str', 'x' * 23],
            ['str', 'lorem ipsum dolor sit amet consectetur adipiscing']],
    'bytes': [['bytes', ''], ['bytes', '61'], ['bytes', b'abcdefghij klmnop'.hex()], ['bytes', b'\x00\xff\' " \\'.hex()],
              ['bytes', (b'x' * 23).hex()]],
    'int': [['int', 0], ['int', -7], ['int', 10 ** 20], ['int', 1]],
    'float': [['float', '0.0'], ['float', '-0.0'], ['float', 'inf'], ['float', '-inf'], ['float', 'nan'], ['float', '1.5'], ['float', '1e+300']],
}


def _place(x, where):
    if where == 'top':
        return x
    if where == 'sole':
        return [x]
    if where == 'first':
        return [x, 0]
    if where == 'key':
        return {x: 0}
    if where == 'val':
        return {0: x}
    if where == 'ns':
        return types.SimpleNamespace(a=x)
    if where == 'call':
        return vtypes.Box(x)


def _extract(obj, where):
    if where == 'top':
        return obj
    if where in ('sole', 'first'):
        return obj[0]
    if where == 'key':
        return next(iter(obj))
    if where == 'val':
        return obj[0]
    if where == 'ns':
        return obj.a
    if where == 'call':
        return obj.args[0]


def _node(tree, where):
    b = tree.body
    if where == 'top':
        return b
    if where in ('sole', 'first'):
        return b.elts[0]
    if where == 'key':
        return b.keys[0]
    if where == 'val':
        return b.values[0]
    if where == 'ns':
        return b.keywords[0].value
    if where == 'call':
        return b.args[0]


def _dotted(node):
    parts = []
    while isinstance(node, ast.Attribute):
        parts.append(node.attr)
        node = node.value
    if isinstance(node, ast.Name):
        parts.append(node.id)
        return '.'.join(reversed(parts))
    return None


def _hashable_base(base):
    return base in ('tuple', 'frozenset', 'str', 'bytes', 'int', 'float')


def enumerate_cases(tier):
    for (base, variant), cls in sorted(vtypes.SUBCLASSES.items()):
        if variant == 'enum':
            vals = [['int', v] for v in vtypes.INT_ENUM_VALUES] if base == 'int' else [['str', v] for v in vtypes.STR_ENUM_VALUES]
        else:
            vals = BOUNDARY[base]
        for inner in vals:
            r = ['sub', base, variant, inner]
            x = values.build(r)
            for where in PLACES:
                if where == 'key':
                    try:
                        hash(x)
                    except TypeError:
                        continue
                one = values.pp(_place(x, where), width=10 ** 6, ribbon_width=10 ** 6)
                L = len(one.text) if one.text and '\n' not in one.text else 60
                maxw = min(L + 4, 90)
                step = 1 if tier == 'thorough' or maxw <= 45 else 2
                for w in range(1, maxw + 1, step):
                    yield {'v': r, 'place': where, 'width': w, 'ribbon': w, 'indent': 4, 'sort': base == 'dict' and w % 2 == 0}


def fixed_cases():
    # D2: too wide for the rest of its line, fits a line of its own
    yield {'v': ['sub', 'str', 'plain', ['str', 'abcdefghij']], 'place': 'val', 'width': 14, 'ribbon': 14, 'indent': 4}
    yield {'v': ['sub', 'str', 'repr', ['str', 'a']], 'place': 'top', 'width': 79, 'ribbon': 71, 'indent': 4}       # D3
    yield {'v': ['sub', 'int', 'enum', ['int', 1]], 'place': 'first', 'width': 79, 'ribbon': 71, 'indent': 4}      # D4
    yield {'v': ['sub', 'int', 'repr', ['int', 3]], 'place': 'val', 'width': 79, 'ribbon': 71, 'indent': 4}


def strategy(tier):
    S = values.strategies()
    st = S['st']
    return st.fixed_dictionaries({
        'v': gens.sub_strategy(S), 'place': st.sampled_from(PLACES),
        'width': st.one_of(st.integers(1, 40), st.integers(1, 120)),
        'ribbon': st.one_of(st.just(None), st.integers(1, 120)),
        'indent': st.sampled_from([1, 2, 4, 8]), 'sort': st.booleans(), 'opts': S['neutral'],
    }).map(lambda c: dict(c, ribbon=c['ribbon'] or c['width']))


def oracle(case):
    r = case['v']
    base, variant = r[1], r[2]
    cls = vtypes.SUBCLASSES[(base, variant)]
    x = values.build(r)
    where = case['place']
    if where == 'key':
        try:
            hash(x)
        except TypeError:
            where = 'val'
    obj = _place(x, where)
    sort = bool(case.get('sort'))
    if variant == 'ci':
        # an equal (case-insensitively) but differently spelled value of the same class, and the plain value, are
        # printed first with the same settings: this instance must still come out in its own spelling
        bv = vtypes.base_value(x)
        for twin in (cls(bv.swapcase()), bv.swapcase(), cls(bv.upper())):
            values.pp(_place(twin, 'val' if where == 'key' else where), width=case['width'], ribbon_width=case['ribbon'], indent=case['indent'])
    p = values.pp(obj, width=case['width'], ribbon_width=case['ribbon'], indent=case['indent'], sort_dict_keys=sort, **(case.get('opts') or {}))
    labels = [base, variant]
    if p.exc is not None:
        return core.viol('pformat-raised', repr(p.exc), labels)
    if p.fallback_warnings():
        return core.viol('printer-failed', p.fallback_warnings()[0][:400], labels)
    text = p.text
    env = vtypes.env()
    try:
        back = values.evaluate(text, env)
        got = _extract(back, where)
    except Exception as e:
        return core.viol('not-evaluable', '%r\n%s' % (e, text[:600]), labels)
    if type(got) is not cls:
        return core.viol('class-lost', 'expected %s, got %s\n%s' % (cls.__qualname__, type(got).__qualname__, text[:600]), labels)
    bx, bg = vtypes.base_value(x), vtypes.base_value(got)
    if not eqv.same(bx, bg, 'sort' if sort else 'keep'):
        return core.viol('base-value-differs', '%r vs %r\n%s' % (bx, bg, text[:600]), labels)
    try:
        tree = ast.parse('(' + text + '\n)', mode='eval')
        node = _node(tree, where)
    except Exception as e:
        return core.viol('ast-shape', '%r\n%s' % (e, text[:400]), labels)
    if not isinstance(node, ast.Call):
        return core.viol('not-a-call', '%s\n%s' % (ast.dump(node)[:200], text[:400]), labels)
    name = _dotted(node.func)
    want = '%s.%s' % (cls.__module__, cls.__qualname__)
    if name != want:
        return core.viol('wrong-callee', '%s != %s' % (name, want), labels)
    if node.keywords or len(node.args) > 1:
        return core.viol('call-shape', ast.dump(node)[:300], labels)
    empty = len(bx) == 0 if hasattr(bx, '__len__') else False
    if not node.args:
        if not empty:
            return core.viol('argument-missing', text[:300], labels)
    else:
        try:
            arg = eval(compile(ast.Expression(node.args[0]), '<arg>', 'eval'), dict(env))
            under = BASE_OF[base](arg)
        except Exception as e:
            return core.viol('argument-not-literal', '%r\n%s' % (e, text[:400]), labels)
        if not eqv.same(under, bx, 'sort' if sort else 'keep'):
            return core.viol('argument-differs', '%r vs %r' % (under, bx), labels)
    multi = '\n' in text
    if multi:
        labels.append('multiline')
    nontrivial = (not empty) if hasattr(bx, '__len__') else True
    if base in ('str', 'bytes') and multi:
        nontrivial = True
    return core.ok(nontrivial, labels)


BASE_OF = {'list': list, 'tuple': tuple, 'set': set, 'frozenset': frozenset, 'dict': dict, 'str': str,
           'bytes': bytes, 'int': int, 'float': float}
