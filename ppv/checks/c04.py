"""C04 - the layout engine only ever picks one of the layouts a document denotes."""
from .. import core, docterm, refsem

ID = 'C04'
LEVEL = 'exploration'
RULE = ('case = (document term over text/concat/nest/group/line/softline/hardline/flat_choice/always_break/fill/'
        'align/hang/annotate with bare str children, width, ribbon fraction, strategy in {smart, fast}). Exhaustive: '
        'all terms with <= 4 nodes (quick) / <= 5 nodes (thorough) over leaves {a, bb, space, empty, line, soft, hard} '
        'x width in {1..6, 10} x fraction in {1.0, 0.5, 0.1} x both strategies, plus every term laid out a second time (same document object) after a layout with other settings; random: Hypothesis terms up to 14 leaves, '
        'width 1..40, fraction in (0, 1]. Oracle: back-tracking (memoised) matcher of the emitted SDoc stream against the '
        'reference denotational semantics (ppv/refsem.py); push/pop properly nested with identical annotation objects; '
        'the same term without its annotations lays out to the same text; default renderer output == stream text with only trailing spaces removed. non-trivial = term has a '
        'group/fill and the layout contains a line break, or the term uses align/hang/annotate/flat_choice; '
        'distinct by hash of term+config')
ASSUMPTIONS = ['the reference semantics in ppv/refsem.py is the meaning of a document (written from the property text)',
               'groups and fill items are chosen independently (any assignment is accepted), so the check is '
               'sound for every engine that picks some denoted layout',
               'known finding C04-hardline-in-flat-group is tolerated only under the exact KF1 clause']
BUDGET = {'quick': {'random': 6000, 'shards': 16}, 'thorough': {'random': 300000, 'shards': 16}}
FUZZ = {'runs': 60000}   # thorough tier: 16 atheris campaigns of this many executions over the same strategy and oracle

WIDTHS = [1, 2, 3, 4, 5, 6, 10]
FRACS = [1.0, 0.5, 0.1]


def enumerate_cases(tier):
    n = 4 if tier == 'quick' else 5
    for t in docterm.all_terms_upto(n):
        for w in WIDTHS:
            for f in FRACS:
                for s in ('smart', 'fast'):
                    yield {'t': t, 'w': w, 'frac': f, 'strategy': s}
        # the same document object laid out before with other settings (documents are values: a layout must not change them)
        for w in (1, 3):
            for s in ('smart', 'fast'):
                yield {'t': t, 'w': w, 'frac': 1.0, 'strategy': s, 'pre': [[10, 1.0, 'fast' if s == 'smart' else 'smart']]}


def fixed_cases():
    # D9, D10 witnesses and the KF1 witness
    yield {'t': ['grp', ['cat', [['t', 'a']]]], 'w': 10, 'frac': 1.0, 'strategy': 'smart'}
    yield {'t': ['nest', 2, ['t', 'x']], 'w': 10, 'frac': 1.0, 'strategy': 'fast'}
    yield {'t': ['align', ['cat', [['t', 'ccc']]]], 'w': 10, 'frac': 1.0, 'strategy': 'smart'}
    yield {'t': ['fill', [['ab', ['fc', ['t', 'B'], ['t', 'F']]]]], 'w': 10, 'frac': 1.0, 'strategy': 'smart'}
    yield {'t': ['grp', ['cat', [['t', 'a'], ['line'], ['t', 'b'], ['hard'], ['t', 'c']]]], 'w': 10, 'frac': 1.0, 'strategy': 'smart'}
    yield {'t': ['cat', [['t', 'a'], ['t', ' b '], ['hard'], ['t', ' c'], ['t', ' '], ['t', ' ']]], 'w': 10, 'frac': 1.0, 'strategy': 'smart'}
    yield from _d28_cases()
    # annotated content that follows a group on its line (annotations never change the text)
    Tx = lambda s: ['t', s]
    g = ['grp', ['cat', [Tx('aa'), ['line'], Tx('bb')]]]
    for tail in (['ann', 0, ['cat', [Tx('c'), ['line'], Tx('dddd')]]], ['ann', 1, ['cat', [['line'], Tx('ddd')]]],
                 ['nest', 2, ['ann', 0, ['cat', [['line'], Tx('eeee'), ['soft'], Tx('f')]]]], ['ann', 0, ['ann', 1, ['cat', [Tx('c'), ['soft'], Tx('dd')]]]]):
        for s in ('smart', 'fast'):
            for w in range(3, 13):
                yield {'t': ['cat', [g, tail]], 'w': w, 'frac': 1.0, 'strategy': s}
                yield {'t': ['cat', [g, Tx(' '), tail, ['line'], g]], 'w': w, 'frac': 0.6, 'strategy': s}
    # the same document object laid out again (documents of more than four nodes)
    T = lambda s: ['t', s]
    for t in (['grp', ['cat', [['line'], ['ab', ['line']]]]],
              ['grp', ['cat', [T('a'), ['line'], ['ab', ['cat', [T('b'), ['line'], T('c')]]]]]],
              ['nest', 2, ['grp', ['cat', [['ab', T('x')], ['line'], T('y')]]]],
              ['grp', ['cat', [T('a'), ['nest', 2, ['cat', [['line'], ['ab', ['grp', ['cat', [T('b'), ['line'], T('c')]]]]]]]]]],
              ['fill', [['grp', ['cat', [T('a'), ['ab', ['line']], T('b')]]], ['line'], T('c')]],
              ['grp', ['ann', 0, ['cat', [T('a'), ['line'], ['ab', T('b')]]]]]):
        for s in ('smart', 'fast'):
            for w in (3, 40):
                yield {'t': t, 'w': w, 'frac': 1.0, 'strategy': s, 'pre': [[40, 1.0, 'smart'], [3, 0.5, 'fast']]}


def _d28_cases():
    # D28: the trailing whitespace of an even-length fill holding an always_break; fill items holding hardline then always_break (KF1)
    T = lambda s: ['t', s]
    for s in ('smart', 'fast'):
        for w in (5, 20):
            yield {'t': ['fill', [T('x'), ['cat', [['ab', T(' y')], ['line'], T('a')]]]], 'w': w, 'frac': 0.5, 'strategy': s}
            yield {'t': ['fill', [T('x'), ['line'], T('z'), ['cat', [['ab', T('y')], ['line']]]]], 'w': w, 'frac': 1.0, 'strategy': s}
            yield {'t': ['grp', ['fill', [T('x'), ['nest', 2, ['cat', [['ab', T('y')], ['line'], T('a')]]]]]], 'w': w, 'frac': 1.0, 'strategy': s}
            yield {'t': ['fill', [T('x'), ['cat', [['hard'], ['ab', T(' y')], ['line'], T('a')]], T('z')]], 'w': w, 'frac': 0.5, 'strategy': s}
            yield {'t': ['fill', [['cat', [['hard'], ['ab', T(' y')], ['line'], T('a')]]]], 'w': w, 'frac': 0.5, 'strategy': s}


def strategy(tier):
    from hypothesis import strategies as st
    return st.fixed_dictionaries({
        't': docterm.term_strategy(classic=False, max_leaves=14),
        'w': st.one_of(st.integers(1, 12), st.integers(1, 40)),
        'frac': st.one_of(st.sampled_from([1.0, 0.9, 0.5, 0.3, 0.1, 0.05]), st.integers(1, 100).map(lambda n: n / 100)),
        'strategy': st.sampled_from(['smart', 'fast']),
        'pre': st.one_of(st.just([]), st.just([]), st.lists(st.tuples(st.integers(1, 40), st.sampled_from([1.0, 0.5, 0.1]),
                                                                     st.sampled_from(['smart', 'fast'])).map(list), min_size=1, max_size=2)),
    })


def layout(case):
    """-> (stream, anns) ; raises whatever the package raises"""
    from prettyprinter import layout as L
    doc, anns = docterm.build(case['t'])
    fn = L.layout_smart if case['strategy'] == 'smart' else L.layout_fast
    from .. import steps
    for pw, pf, ps in case.get('pre') or []:
        # earlier layouts of the very same document object (result discarded)
        pfn = L.layout_smart if ps == 'smart' else L.layout_fast
        _, exceeded = steps.guarded(lambda: list(pfn(doc, width=pw, ribbon_frac=pf)), cap=10 ** 6, cpu_seconds=5.0)
        if exceeded:
            raise NoTermination('layout did not finish within 10^6 package lines')
    # a layout of these small documents needs a few thousand package lines; a runaway one is re-decided by the meter
    stream, exceeded = steps.guarded(lambda: list(fn(doc, width=case['w'], ribbon_frac=case['frac'])), cap=10 ** 6, cpu_seconds=5.0)
    if exceeded:
        raise NoTermination('layout did not finish within 10^6 package lines')
    return stream, anns


class NoTermination(Exception):
    pass


def forced_break_inside_annotation(t, inside=False):
    k = t[0]
    if k in ('hard', 'ab') and inside:
        return True
    if k == 'ann':
        return forced_break_inside_annotation(t[2], True)
    if k in ('cat', 'fill'):
        return any(forced_break_inside_annotation(x, inside) for x in t[1])
    if k in ('nest', 'hang'):
        return forced_break_inside_annotation(t[2], inside)
    if k in ('grp', 'ab', 'align'):
        return forced_break_inside_annotation(t[1], inside)
    if k == 'fc':
        return forced_break_inside_annotation(t[1], inside) or forced_break_inside_annotation(t[2], inside)
    return False


def strip_annotations(t):
    k = t[0]
    if k == 'ann':
        return strip_annotations(t[2])
    if k in ('cat', 'fill'):
        return [k, [strip_annotations(x) for x in t[1]]]
    if k in ('nest', 'hang'):
        return [k, t[1], strip_annotations(t[2])]
    if k in ('grp', 'ab', 'align'):
        return [k, strip_annotations(t[1])]
    if k == 'fc':
        return [k, strip_annotations(t[1]), strip_annotations(t[2])]
    return t


def oracle(case):
    from prettyprinter import sdoctypes
    from prettyprinter.render import default_render_to_str
    t = case['t']
    try:
        stream, anns = layout(case)
    except RecursionError:
        return core.skip('recursion')
    except Exception as e:
        return core.viol('engine-raised', '%r on %s' % (e, core.canonical(case)[:400]))
    for x in stream:
        if not isinstance(x, (str, sdoctypes.SLine, sdoctypes.SAnnotationPush, sdoctypes.SAnnotationPop)):
            return core.viol('bad-stream-element', repr(x))
    if not refsem.annotations_nested(stream, sdoctypes):
        return core.viol('annotations-not-nested', repr(stream)[:400])
    try:
        m = refsem.membership(t, stream, anns, sdoctypes)
    except refsem.TooAmbiguous:
        return core.skip('matcher-budget')
    if m is None:
        return core.viol('not-a-layout', 'stream %r is no layout of %s (w=%s frac=%s %s)' % (
            stream, core.canonical(t)[:500], case['w'], case['frac'], case['strategy']))
    raw = refsem.stream_text(stream, sdoctypes)
    if 'ann' in docterm.kinds(t) and not forced_break_inside_annotation(t):
        # "annotations never change the text": the same document without its annotations lays out to the same text
        # (not judged where an annotation wraps a hardline / always_break: normalisation hoists a forced break through
        # concat / nest / group but not through annotate, so the look-ahead of an earlier group meets it in one case
        # and not in the other - both layouts are denoted ones, and C06 allows the break "if a forced-break document
        # starts later on that same line")
        try:
            bare, _ = layout(dict(case, t=strip_annotations(t), pre=[]))
        except Exception as e:
            return core.viol('engine-raised', 'without annotations: %r on %s' % (e, core.canonical(case)[:400]))
        bare_text = refsem.stream_text(bare, sdoctypes)
        if bare_text != raw:
            return core.viol('annotation-changes-text', 'with annotations %r, without %r: %s (w=%s frac=%s %s)' % (
                raw, bare_text, core.canonical(t)[:400], case['w'], case['frac'], case['strategy']))
    try:
        rendered = default_render_to_str(list(stream))
    except Exception as e:
        return core.viol('renderer-raised', repr(e))
    rl, ql = rendered.split('\n'), raw.split('\n')
    if len(rl) != len(ql) or any(not (q.startswith(r) and q[len(r):].strip(' ') == '') for r, q in zip(rl, ql)):
        return core.viol('renderer-changed-text', '%r vs stream text %r' % (rendered, raw))
    ks = docterm.kinds(t)
    labels = [case['strategy']] + (['laid-out-before'] if case.get('pre') else [])
    broke = any(isinstance(x, sdoctypes.SLine) for x in stream)
    if broke:
        labels.append('has-linebreak')
    nontrivial = (bool(ks & {'grp', 'fill'}) and broke) or bool(ks & {'align', 'hang', 'ann', 'fc'})
    if m == refsem.KF1:
        return core.known('KF1', nontrivial=nontrivial, labels=labels + ['kf1'])
    return core.ok(nontrivial, labels)
