"""C10 - max_seq_len shows exactly the first N elements and says how many were dropped."""
import io
import re
import tokenize

from .. import core, eqv, gens, values

ID = 'C10'
LEVEL = 'exploration'
RULE = ('sibling family: in a namedtuple / SimpleNamespace / exception / list / dict holding (a, b) the text of b under max_seq_len=N (b = nested lists shorter than N) is its text when printed alone, whatever a is (int, a list longer than N, a 2-D / 3-D numpy array with the bundled numpy extra installed). Main family: case = (container tree over list/tuple/set/frozenset/dict with lengths 0..6, optionally reached through '
        'pretty_call objects with one or several positional/keyword arguments, optionally wrapped in comment() / trailing_comment(), or held by standard-library containers (deque, '
        'OrderedDict, defaultdict, Counter, ChainMap, mappingproxy, namedtuple, SimpleNamespace; N >= 2 there), N in {1..maxlen+1, None, 10^6, '
        'default}, width, indent). Exhaustive: shapes built from lengths {0,1,2,3} nested to depth 2 over all five '
        'container kinds x every N in 1..4 plus None x 3 widths; long flat containers of 999/1000/1001/1200 elements at '
        'the default limit; random: Hypothesis trees. Oracle: eval(output) type-strictly equals the reference '
        'truncation T_N (first min(len, N) elements of every reached container in the live iteration order, '
        'recursively, keys included); the multiset of counts in "...and K more elements" notices (COMMENT tokens, '
        'word-joined) equals {len - N : len > N} over the reached containers; with None: no warning, no notice, text '
        'identical to N = 10^6. non-trivial = a container at nesting level >= 1 was truncated, or N is None; distinct '
        'by case hash')
ASSUMPTIONS = ['iteration order of the live object defines "first N elements" (sets: the order this interpreter iterates them)',
               'with sort_dict_keys on, a truncated dict shows the first N keys in ascending order (judged only for pairwise comparable keys); the option does not concern sets']
BUDGET = {'quick': {'random': 8000, 'shards': 16}, 'thorough': {'random': 300000, 'shards': 16}}

NOTICE = re.compile(r'\.\.\.and (\d+) more elements')


def _leafs():
    i = 0
    while True:
        i += 1
        yield ['int', i]


def _shape(kind, n, inner, leaves):
    items = []
    for j in range(n):
        items.append(inner(j) if inner else next(leaves))
    if kind == 'dict':
        return ['dict', [[next(leaves), it] for it in items]]
    return [kind, items]


def enumerate_cases(tier):
    kinds = ['list', 'tuple', 'set', 'fset', 'dict']
    hashable_kinds = ('tuple', 'fset')
    lens = [0, 1, 2, 3]
    widths = [5, 30, 79]
    for outer in kinds:
        for n_out in lens:
            inner_opts = [None]
            for ik in kinds:
                if outer in ('set', 'fset') and ik not in hashable_kinds:
                    continue
                for n_in in lens:
                    inner_opts.append((ik, n_in))
            for io_ in inner_opts:
                leaves = _leafs()
                if io_ is None:
                    r = _shape(outer, n_out, None, leaves)
                else:
                    ik, n_in = io_
                    if n_out == 0:
                        continue
                    r = _shape(outer, n_out, lambda j: _shape(ik, n_in if j == 0 else max(0, n_in - 1), None, leaves), leaves)
                for N in (1, 2, 3, 4, None):
                    for w in widths:
                        yield {'v': r, 'n': N, 'width': w, 'indent': 4}


def vtypes_keys():
    from .. import vtypes
    return set(vtypes.SUBCLASSES)


SIB_HOLDERS = ['ntuple', 'ns', 'exc', 'list', 'dict']
SIB_FIRSTS = ['int', 'longlist', 'ndarray2', 'ndarray3']


def sibling_cases():
    # what is printed for a later element does not depend on an earlier one that was truncated (incl. arrays of the bundled
    # numpy extra, which narrows the limit for its own rows)
    for holder in SIB_HOLDERS:
        for first in SIB_FIRSTS:
            for n in (3, 5):
                yield {'sibling': holder, 'first': first, 'n': n, 'width': 79, 'indent': 4}


def oracle_sibling(case):
    import ast
    import collections
    import types
    n = case['n']
    first = case['first']
    if first.startswith('ndarray'):
        try:
            import warnings
            with warnings.catch_warnings():
                warnings.simplefilter('ignore')
                import numpy as np
                import prettyprinter
                prettyprinter.install_extras(['numpy'], warn_on_error=False)
        except Exception as e:     # the optional package is not importable here
            return core.skip('numpy-extra-unavailable')
        a = np.arange(24).reshape(4, 6) if first == 'ndarray2' else np.arange(48).reshape(2, 4, 6)
    elif first == 'int':
        a = 0
    else:
        a = list(range(n + 4))
    inner = list(range(1, n))                   # shorter than the limit: shown in full wherever it stands
    b = [inner, {'k': inner, 'j': (inner, inner)}]
    P = collections.namedtuple('P', 'a b')
    v = {'ntuple': lambda: P(a, b), 'ns': lambda: types.SimpleNamespace(a=a, b=b), 'exc': lambda: ValueError(a, b),
         'list': lambda: [a, b], 'dict': lambda: {'a': a, 'b': b}}[case['sibling']]()
    cfg = {'width': case['width'], 'ribbon_width': case['width'], 'indent': case['indent'], 'max_seq_len': n}
    p = values.pp(v, **cfg)
    alone = values.pp(b, **cfg)
    if p.exc is not None or alone.exc is not None:
        return core.viol('pformat-raised', repr(p.exc or alone.exc))
    if p.fallback_warnings():
        return core.viol('warning', p.fallback_warnings()[0][:400])
    # the text of b is the tail of the output: find it by the unique opening of b alone, compare token streams
    want = ast.dump(ast.parse('(' + alone.text + '\n)', mode='eval').body)
    norm = ' '.join(p.text.split())
    key = ' '.join(alone.text.split())
    if ast.literal_eval(alone.text) != b:
        return core.viol('short-list-truncated', 'alone: ' + alone.text[:300])
    if key not in norm.replace('( ', '(').replace(' )', ')') and key.replace(' ', '') not in norm.replace(' ', ''):
        return core.viol('sibling-changes-element', 'after a %s in a %s the element prints differently (max_seq_len=%d):\n%s\nalone:\n%s' % (first, case['sibling'], n, p.text[:600], alone.text[:300]))
    return core.ok(first != 'int', ['sibling', 'sibling-' + first])


def fixed_cases():
    for c in sibling_cases():
        yield c
    for kind in ('list', 'tuple', 'set', 'fset', 'dict'):
        for ln in (999, 1000, 1001, 1200):
            yield {'long': [kind, ln], 'n': 'default', 'width': 79, 'indent': 4}
    yield {'long': ['list', 1200], 'n': None, 'width': 79, 'indent': 4}
    yield {'v': ['list', [['int', 1], ['int', 2], ['dict', [[['int', 1], ['int', 2]]]]]], 'n': None, 'width': 79, 'indent': 4}   # D8
    yield {'v': ['dict', [[['tuple', [['int', 1], ['int', 2], ['int', 3]]], ['list', [['int', 1], ['int', 2], ['int', 3]]]]]],
           'n': 2, 'width': 20, 'indent': 2}
    big_set = ['set', [['int', 1000], ['int', 1], ['int', 500], ['int', 2], ['int', 64], ['int', 33]]]
    for n in (1, 2, 3):
        for kind in ('set', 'fset'):
            yield {'v': [kind, big_set[1]], 'n': n, 'width': 40, 'indent': 4, 'sort': True}
        yield {'v': ['list', [big_set, ['dict', [[['int', 3], big_set], [['int', 1], ['int', 0]], [['int', 2], ['int', 0]]]]]], 'n': n, 'width': 40, 'indent': 4, 'sort': True}
    inner = ['list', [['int', 1], ['int', 2], ['int', 3], ['int', 4]]]
    for n in (1, 2, 3, 4, None):
        for base, payload in (('list', inner), ('tuple', ['tuple', inner[1]]), ('set', ['set', inner[1]]), ('frozenset', ['fset', inner[1]]),
                              ('dict', ['dict', [[['int', i], inner] for i in range(3)]])):
            for variant in ('plain', 'repr'):
                if (base, variant) in vtypes_keys():
                    yield {'v': ['sub', base, variant, payload], 'n': n, 'width': 40, 'indent': 4}
                    kind = 'cmt' if base == 'frozenset' else 'tcmt'      # (the frozenset printer takes no trailing comment: documented warning)
                    yield {'v': ['list', [['sub', base, variant, payload], [kind, 'user note', ['sub', base, variant, payload]]]], 'n': n, 'width': 20, 'indent': 4}
    for n in (1, 2, 4, None):
        for w in (20, 79):
            for kind in ('tcmt', 'cmt'):
                # truncated containers that also carry a user comment
                yield {'v': [kind, 'user note', inner], 'n': n, 'width': w, 'indent': 4}
                yield {'v': ['list', [[kind, 'user note', inner], [kind, 'other note', ['dict', [[['int', i], ['int', i]] for i in range(3)]]],
                                      [kind, 'third', ['set', [['int', 1], ['int', 2], ['int', 3]]]], [kind, 'fourth', ['tuple', [['int', 1], ['int', 2], ['int', 3]]]]]],
                       'n': n, 'width': w, 'indent': 4}
    for n in (2, 3, None):
        yield {'v': ['std', 'deque', [['int', 10], ['int', 20], ['int', 30], ['int', 40], inner], 9], 'n': n, 'width': 40, 'indent': 4, 'std': True}
        yield {'v': ['std', 'odict', [[['int', i], inner] for i in range(4)]], 'n': n, 'width': 40, 'indent': 4, 'std': True}
        yield {'v': ['std', 'counter', [[['str', 'k%d' % i], 9 - i] for i in range(6)]], 'n': n, 'width': 40, 'indent': 4, 'std': True}
        yield {'v': ['list', [['std', 'structseq', 'terminal_size', [inner, ['dict', [[['int', i], ['int', i]] for i in range(4)]]]], inner]], 'n': n, 'width': 40, 'indent': 4, 'std': True}
        yield {'v': ['list', [['std', 'counter', [[['int', i], 3 + i] for i in range(4)]], ['std', 'mproxy', [[['int', i], inner] for i in range(4)]]]], 'n': n, 'width': 40, 'indent': 4, 'std': True}
        yield {'v': ['std', 'ddict', 'list', [[['int', i], inner] for i in range(4)]], 'n': n, 'width': 40, 'indent': 4, 'std': True}
        yield {'v': ['std', 'chainmap', [[[['int', i], inner] for i in range(4)], [[['str', 'k'], ['int', 0]]]]], 'n': n, 'width': 40, 'indent': 4, 'std': True}
        yield {'v': ['std', 'ntuple', 'Point', [inner, ['tuple', [['int', 1], ['int', 2], ['int', 3], ['int', 4]]]]], 'n': n, 'width': 40, 'indent': 4, 'std': True}
    for n in (1, 3, None):
        yield {'v': ['call', 'box', [inner, ['dict', [[['int', 1], inner], [['int', 2], ['int', 0]]]]], [['kw', ['tuple', [inner, ['int', 5], ['int', 6]]]]]],
               'n': n, 'width': 40, 'indent': 4}
        yield {'v': ['list', [['call', 'alt', [inner], []], ['call', 'box', [['int', 0], inner], []]]], 'n': n, 'width': 40, 'indent': 4}


def strategy(tier):
    S = values.strategies()
    st = S['st']
    leaf = st.one_of(S['r_int'], S['r_str'], S['r_const'])
    hashable = st.recursive(leaf, S['hashable_ext'], max_leaves=8)

    def ext(ch):
        return st.one_of(
            st.lists(ch, max_size=6).map(lambda xs: ['list', xs]),
            st.lists(ch, max_size=6).map(lambda xs: ['tuple', xs]),
            st.lists(hashable, max_size=6).map(lambda xs: ['set', xs]),
            st.lists(hashable, max_size=6).map(lambda xs: ['fset', xs]),
            st.lists(st.tuples(hashable, ch).map(list), max_size=6).map(lambda kv: ['dict', kv]),
        )
    def ext_calls(ch):
        # containers reached through call-style printers (one or several arguments, keyword arguments) and instances of
        # user subclasses of the containers
        return st.one_of(
            ext(ch),
            st.tuples(st.sampled_from(['plain', 'repr']), st.lists(ch, max_size=5)).map(lambda p: ['sub', 'list', p[0], ['list', p[1]]]),
            st.tuples(st.sampled_from(['plain', 'str']), st.lists(ch, max_size=5)).map(lambda p: ['sub', 'tuple', p[0], ['tuple', p[1]]]),
            st.tuples(st.sampled_from(['plain', 'repr']), st.lists(st.tuples(hashable, ch).map(list), max_size=5)).map(
                lambda p: ['sub', 'dict', p[0], ['dict', p[1]]]),
            st.lists(hashable, max_size=5).map(lambda xs: ['sub', 'set', 'plain', ['set', xs]]),
            st.lists(hashable, max_size=5).map(lambda xs: ['sub', 'frozenset', 'plain', ['fset', xs]]),
            st.tuples(st.sampled_from(['box', 'alt']), st.lists(ch, max_size=3),
                      gens.named_values(st, ['a', 'b'], ch, 2)).map(
                lambda p: ['call', p[0], p[1], p[2]]),
        )
    plain = st.recursive(leaf, ext, max_leaves=30).filter(lambda r: r[0] in ('list', 'tuple', 'set', 'fset', 'dict'))
    with_calls = st.recursive(leaf, ext_calls, max_leaves=20).filter(lambda r: r[0] in ('list', 'tuple', 'dict', 'call', 'sub'))
    def decorate(p):
        # comment() / trailing_comment() on containers that are list elements, dict values or the root
        # (texts without digits; a comment neither hides nor adds a truncation notice)
        tree, picks = p
        state = {'n': 0}

        def rec(r, allowed):
            t = r[0]
            if t in ('list', 'tuple'):
                r = [t, [rec(x, True) for x in r[1]]]
            elif t == 'dict':
                r = [t, [[k, rec(v, True)] for k, v in r[1]]]
            if t in ('list', 'tuple', 'dict', 'set', 'fset'):
                state['n'] += 1
                if allowed and state['n'] % 5 in picks:
                    # (the frozenset printer takes no trailing comment - a documented warning: comment() there)
                    return ['cmt' if t == 'fset' else ('tcmt', 'cmt')[state['n'] % 2], 'user note', r]
            return r
        return rec(tree, True)
    commented = st.tuples(plain, st.sets(st.integers(0, 4), min_size=1, max_size=3).map(sorted)).map(decorate)
    tree = st.one_of(plain, plain, with_calls, commented)
    # standard-library containers holding built-in containers (N >= 2: the (key, value) items of an OrderedDict are
    # 2-tuples and must stay whole)
    from .. import stdvals
    small = st.recursive(leaf, ext, max_leaves=8)
    parts = stdvals.std_strategy(S, payload=small, hashable=hashable)
    std_tree = st.one_of(*[parts[k] for k in ('odict', 'ddict', 'deque', 'counter', 'chainmap', 'mproxy', 'ns', 'ntuple')])
    std_case = st.fixed_dictionaries({
        'v': st.one_of(std_tree, st.lists(std_tree, min_size=1, max_size=3).map(lambda xs: ['list', xs])),
        'n': st.one_of(st.integers(2, 5), st.none()), 'width': st.sampled_from([20, 79]), 'indent': st.sampled_from([2, 4]),
        'sort': st.booleans(), 'std': st.just(True)})
    return st.one_of(std_case, st.fixed_dictionaries({
        'v': tree,
        'n': st.one_of(st.integers(1, 7), st.integers(1, 3), st.none(), st.just(10 ** 6)),
        'width': st.one_of(st.integers(1, 79), st.sampled_from([1, 10, 79])),
        'indent': st.sampled_from([1, 2, 4, 8]), 'sort': st.sampled_from([False, False, True]),
    }), st.fixed_dictionaries({
        'v': tree,
        'n': st.one_of(st.integers(1, 7), st.integers(1, 3), st.none(), st.just(10 ** 6)),
        'width': st.one_of(st.integers(1, 79), st.sampled_from([1, 10, 79])),
        'indent': st.sampled_from([1, 2, 4, 8]), 'sort': st.sampled_from([False, False, True]),
    }))


class _Unordered(Exception):
    pass


def _sorted_keys(d, sort):
    keys = list(d.keys())
    if sort == 'sorted' and len(keys) > 1:
        if not eqv.mutually_comparable(keys):
            raise _Unordered()
        keys = sorted(keys)
    return keys


def _cut_dict(m, N, counts, level, trunc_levels, sort):
    keys = _sorted_keys(m, sort)
    if len(keys) > N:
        counts.append(len(keys) - N)
        if trunc_levels is not None:
            trunc_levels.append(level)
    return keys[:N]


def truncate(v, N, counts, level=0, trunc_levels=None, sort=False):
    """reference truncation; appends len-N for every reached container longer than N.
    sort: sort_dict_keys is on - a dict shows its first N keys in ascending order (only judged when the keys are
    pairwise comparable); sets, lists, tuples are unaffected by that option (iteration order)."""
    from .. import vtypes
    while type(v).__name__ in ('_CommentedValue', '_TrailingCommentedValue'):
        v = v.value          # comments are inert for truncation
    t = type(v)
    import collections as _c
    import types as _t
    rec = lambda x, lv=level + 1: truncate(x, N, counts, lv, trunc_levels, sort)

    def cut(seq):
        seq = list(seq)
        if len(seq) > N:
            counts.append(len(seq) - N)
            if trunc_levels is not None:
                trunc_levels.append(level)
        return seq[:N]
    # standard-library containers print their content as a list / dict argument of a call: that argument is truncated
    if isinstance(v, _c.deque):
        return _c.deque([rec(x) for x in cut(v)], maxlen=v.maxlen)
    if isinstance(v, _c.OrderedDict):
        return _c.OrderedDict((rec(k), rec(x)) for k, x in cut(v.items()))
    if isinstance(v, _c.defaultdict):
        d = _c.defaultdict(v.default_factory)
        for k in cut(_sorted_keys(dict(v), sort)):
            d[rec(k)] = rec(v[k])
        return d
    if isinstance(v, _c.Counter):
        shown = dict(v.most_common())
        return _c.Counter({rec(k): shown[k] for k in cut(_sorted_keys(shown, sort))})
    if isinstance(v, _c.ChainMap):
        return _c.ChainMap(*[{rec(k): rec(m[k]) for k in _cut_dict(m, N, counts, level + 1, trunc_levels, sort)} for m in v.maps])
    if isinstance(v, _t.MappingProxyType):
        return _t.MappingProxyType({rec(k): rec(v[k]) for k in cut(_sorted_keys(dict(v), sort))})
    if isinstance(v, _t.SimpleNamespace):
        return _t.SimpleNamespace(**{k: rec(x) for k, x in v.__dict__.items()})
    if isinstance(v, tuple) and hasattr(t, 'n_sequence_fields'):
        # a struct sequence of at most N fields (os.terminal_size): its fields are all shown, each truncated on its own
        return t(tuple(rec(x) for x in v))
    if isinstance(v, tuple) and hasattr(t, '_fields'):
        return t(*[rec(x) for x in v])
    if isinstance(v, vtypes.Box):
        # a call-style object is not a container: its arguments are all shown, each truncated on its own
        return t(*[truncate(a, N, counts, level + 1, trunc_levels, sort) for a in v.args],
                 **{k: truncate(a, N, counts, level + 1, trunc_levels, sort) for k, a in v.kwargs.items()})
    if isinstance(v, (list, tuple, set, frozenset)):          # subclass instances included: Sub([first N elements])
        items = list(v)
        if len(items) > N:
            counts.append(len(items) - N)
            if trunc_levels is not None:
                trunc_levels.append(level)
        kept = [truncate(x, N, counts, level + 1, trunc_levels, sort) for x in items[:N]]
        return t(kept)
    if isinstance(v, dict):
        keys = list(v.keys())
        if sort == 'sorted' and len(keys) > 1:
            if not eqv.mutually_comparable(keys):
                raise _Unordered()
            keys = sorted(keys)
        if len(keys) > N:
            counts.append(len(keys) - N)
            if trunc_levels is not None:
                trunc_levels.append(level)
        out = {}
        for k in keys[:N]:
            out[truncate(k, N, counts, level + 1, trunc_levels, sort)] = truncate(v[k], N, counts, level + 1, trunc_levels, sort)
        return out if t is dict else t(out)
    return v


def notices(text):
    words = []
    for tok in tokenize.generate_tokens(io.StringIO('(' + text + '\n)').readline):
        if tok.type == tokenize.COMMENT:
            words.extend(tok.string[1:].split())
    joined = ' '.join(words)
    found = NOTICE.findall(joined)
    if not found:
        # wording may change; the statement only fixes the count: fall back to every integer in the comments
        found = re.findall(r'(?<![\w.])(\d+)(?![\w.])', joined)
    return sorted(int(x) for x in found), len(words)


def build_long(kind, ln):
    if kind == 'dict':
        return {i: i for i in range(ln)}
    base = {'list': list, 'tuple': tuple, 'set': set, 'fset': frozenset}[kind]
    return base(range(ln))


def oracle(case):
    if 'sibling' in case:
        return oracle_sibling(case)
    if 'long' in case:
        v = build_long(*case['long'])
    else:
        v = values.build(case['v'])
    n = case['n']
    sort = bool(case.get('sort'))
    cfg = {'width': case['width'], 'ribbon_width': case['width'], 'indent': case['indent'], 'sort_dict_keys': sort}
    if n == 'default':
        N = 1000
    elif n is None:
        N = 10 ** 9
        cfg['max_seq_len'] = None
    else:
        N = n
        cfg['max_seq_len'] = n
    p = values.pp(v, **cfg)
    if p.exc is not None:
        return core.viol('pformat-raised', repr(p.exc))
    if p.fallback_warnings() or (n is None and p.warnings):
        return core.viol('warning', p.warnings[0][:400])
    counts, levels = [], []
    # With sort_dict_keys on, "the first N elements" of a dict can be read as the first N keys in ascending order (what
    # the code does) or the first N inserted keys shown in ascending order; the statement does not choose - both are accepted.
    alternatives = []
    try:
        expected = truncate(v, N, counts, 0, levels, 'sorted' if sort else False)
    except _Unordered:
        return core.skip('sorted-keys-not-comparable')
    if sort:
        alternatives.append(truncate(v, N, [], 0, [], 'insertion'))
    from .. import vtypes
    from .c17 import deep_same
    try:
        env = dict(vtypes.env())
        if case.get('std'):
            from .. import stdvals
            env.update(stdvals.env())
        back = values.evaluate(p.text, env)
    except Exception as e:
        return core.viol('not-evaluable', '%r\n%s' % (e, p.text[:500]))
    if case.get('std'):
        from .. import stdvals
        same = stdvals.deep_same(expected, back, 'sort' if sort else 'keep') or any(stdvals.deep_same(alt, back, 'sort') for alt in alternatives)
    else:
        same = deep_same(expected, back, not sort) or any(deep_same(alt, back, False) for alt in alternatives)
    if not same:
        return core.viol('truncated-value-differs', 'N=%r expected %r\ngot %r' % (n, expected, back) if len(p.text) < 600 else 'N=%r long value differs' % (n,))
    try:
        got, nwords = notices(p.text)
    except (tokenize.TokenError, SyntaxError) as e:
        return core.viol('not-tokenizable', repr(e))
    if got != sorted(counts):
        return core.viol('notice-counts-differ', 'N=%r expected notices %r got %r\n%s' % (n, sorted(counts), got, p.text[:500]))
    has_comments = any(s in core.canonical(case.get('v')) for s in ('"cmt"', '"tcmt"', '"structseq"'))       # (struct sequences print their field names as comments)
    if not counts and nwords and not has_comments:
        return core.viol('unexpected-comment', p.text[:400])
    labels = []
    if n is None:
        q = values.pp(v, **dict(cfg, max_seq_len=10 ** 6))
        if q.text != p.text:
            return core.viol('none-differs-from-huge-limit', '%s\nvs\n%s' % (p.text[:300], (q.text or '')[:300]))
        labels.append('N=None')
    if counts:
        labels.append('truncated')
    if case.get('std'):
        labels.append('std-container' + ('-truncated' if counts else ''))
    nontrivial = n is None or any(lv >= 1 for lv in levels)
    return core.ok(nontrivial, labels)
