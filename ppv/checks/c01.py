"""C01 - printed built-in values evaluate back to an equal value of the same types."""
import itertools

from .. import core, eqv, values

ID = 'C01'
LEVEL = 'exploration'
RULE = ('case = (value recipe over int/float/bool/None/Ellipsis/str/bytes/list/tuple/set/frozenset/dict, '
        'width, ribbon_width, indent, sort_dict_keys); exhaustive part: every tree with <= 3 nodes over a '
        '14-leaf adversarial alphabet x 5 configs x sort in {F,T}; random part: Hypothesis recursive trees '
        '(<= 25 leaves) x widths/ribbons 1..200, indent 1..8. Oracle: eval("(" + pformat + ")") is '
        'type-strictly equal (canonical form; -0.0, nan, bool vs int, dict order) and no printer fell back to repr. '
        'non-trivial = value has a container and the output spans > 1 line or holds a string literal; '
        'distinct = hash of recipe+config')
ASSUMPTIONS = ['CPython eval/ast of the printed text is the evaluation oracle',
               'dict order under sort_dict_keys is only required ascending when every pair of keys is '
               'orderable (plain scalars/tuples, no nan); otherwise only the set of pairs is compared']
BUDGET = {'quick': {'random': 6000, 'shards': 16}, 'thorough': {'random': 400000, 'shards': 16}}
FUZZ = {'runs': 40000}   # thorough tier: 16 atheris campaigns of this many executions over the same strategy and oracle

LEAVES = [['str', ''], ['bytes', ''], ['str', "'"], ['float', '-0.0'], ['float', 'nan'], ['float', 'inf'],
          ['bool', True], ['int', 1], ['float', '1.0'], ['none'], ['ell'], ['tuple', []], ['fset', []],
          ['str', 'a b']]
CONFIGS = [(1, 1, 1), (2, 200, 8), (10, 5, 4), (79, 71, 4), (200, 200, 2)]


def _hashable(r):
    t = r[0]
    if t in ('list', 'set', 'dict'):
        return False
    if t in ('tuple', 'fset'):
        return all(_hashable(x) for x in r[1])
    return True


def trees(n):
    """all recipes with exactly n nodes"""
    if n == 1:
        for lf in LEAVES:
            yield lf
        for c in ('list', 'set', 'dict'):
            yield [c, []]
        return
    # sequences: children sizes sum to n-1
    for c in ('list', 'tuple', 'set', 'fset'):
        for parts in _compositions(n - 1):
            for kids in itertools.product(*[list(trees(p)) for p in parts]):
                if c in ('set', 'fset') and not all(_hashable(k) for k in kids):
                    continue
                yield [c, [k for k in kids]]
    # dicts: pairs
    for parts in _compositions(n - 1):
        if len(parts) % 2:
            continue
        for kids in itertools.product(*[list(trees(p)) for p in parts]):
            pairs = [[kids[i], kids[i + 1]] for i in range(0, len(kids), 2)]
            if not all(_hashable(k) for k, _ in pairs):
                continue
            yield ['dict', pairs]


def _compositions(n):
    if n == 0:
        return
    for first in range(1, n + 1):
        if first == n:
            yield (n,)
        else:
            for rest in _compositions(n - first):
                yield (first,) + rest


def enumerate_cases(tier):
    maxn = 3 if tier == 'quick' else 4
    for n in range(1, maxn + 1):
        for t in trees(n):
            for (w, r, i) in CONFIGS:
                for s in (False, True):
                    yield {'v': t, 'cfg': {'width': w, 'ribbon_width': r, 'indent': i, 'sort_dict_keys': s}}


def fixed_cases():
    yield from _sorted_key_cases()
    for zs in (['0.0', '-0.0'], ['-0.0', '0.0'], ['0.0', '-0.0', '0.0']):
        yield {'v': ['list', [['float', z] for z in zs]], 'cfg': {'width': 79, 'ribbon_width': 71, 'indent': 4, 'sort_dict_keys': False}}
        yield {'v': ['dict', [[['float', z], ['float', z]] for z in zs[:1]] + [[['int', 5], ['float', zs[1]]]]], 'cfg': {'width': 79, 'ribbon_width': 71, 'indent': 4, 'sort_dict_keys': False}}
    for text in ('say "hi" and "bye" then it\'s done, isn\'t it', 'a "b" c\\\'d "e" f\\\'g h "i"', 'C:\\dir\\\'x\' "y" "z" and more words follow here'):
        for w in (8, 12, 20, 30):
            yield {'v': ['list', [['str', text]]], 'cfg': {'width': w, 'ribbon_width': w, 'indent': 2, 'sort_dict_keys': False}}
            yield {'v': ['bytes', text.encode().hex()], 'cfg': {'width': w, 'ribbon_width': w, 'indent': 2, 'sort_dict_keys': False}}
    # D1 witnesses and friends
    deep = ['str', '']
    for _ in range(20):
        deep = ['list', [deep]]
    yield {'v': deep, 'cfg': {'width': 79, 'ribbon_width': 71, 'indent': 4, 'sort_dict_keys': False}}
    yield {'v': ['list', [['bytes', '']]], 'cfg': {'width': 10, 'ribbon_width': 10, 'indent': 8, 'sort_dict_keys': False}}
    yield {'v': ['dict', [[['str', 'b'], ['int', 1]], [['str', 'a'], ['int', 2]], [['str', 'c'], ['int', 3]]]],
           'cfg': {'width': 79, 'ribbon_width': 71, 'indent': 4, 'sort_dict_keys': True}}
    yield {'v': ['dict', [[['int', 3], ['int', 1]], [['float', '-0.5'], ['int', 2]], [['bool', True], ['int', 3]]]],
           'cfg': {'width': 5, 'ribbon_width': 71, 'indent': 4, 'sort_dict_keys': True}}


def _sorted_key_cases():
    tk = lambda a, b: ['tuple', [a, b]]
    I = lambda n: ['int', n]
    T = lambda s: ['str', s]
    clash = ['dict', [[tk(T('a'), I(1)), I(1)], [tk(I(1), T('a')), I(2)]]]                       # keys of one type that cannot be ordered
    fine = ['dict', [[tk(I(2), T('b')), I(1)], [tk(I(1), T('a')), I(2)], [tk(I(1), T('b')), I(3)], [tk(I(0), T('z')), I(4)]]]
    fsets = ['dict', [[['fset', [I(1), I(2)]], I(1)], [['fset', [I(1)]], I(2)], [['fset', []], I(3)]]]
    mixed = ['dict', [[I(3), I(1)], [T('a'), I(2)], [['none'], I(3)], [I(1), I(4)], [T('B'), I(5)]]]
    for v in (['list', [clash, fine]], ['list', [fine, clash, fine]], ['list', [mixed, fine]], ['dict', [[T('x'), clash], [T('a'), fine]]],
              ['list', [fsets, fine]], fine, ['tuple', [mixed, clash, fine, fine]]):
        for w in (79, 10):
            yield {'v': v, 'cfg': {'width': w, 'ribbon_width': w, 'indent': 4, 'sort_dict_keys': True}}


def strategy(tier):
    S = values.strategies()
    st = S['st']
    # long flat containers take the "will not fit anyway" shortcut of the sequence printer (> 150 columns minimum)
    long_seq = st.tuples(st.sampled_from(['list', 'tuple', 'set', 'fset']),
                         st.lists(st.one_of(S['r_int'], S['r_const'], S['r_str']), min_size=45, max_size=70)).map(lambda p: [p[0], p[1]])
    long_dict = st.lists(st.tuples(S['r_int'], S['leaf']).map(list), min_size=45, max_size=60).map(lambda kv: ['dict', kv])
    value = st.one_of(S['value'], S['value'], S['value'], S['value'], S['value'], S['value'], long_seq, long_dict,
                      st.tuples(long_seq, S['value']).map(lambda p: ['list', [p[0], p[1]]]))
    return st.fixed_dictionaries({'v': value, 'cfg': st.tuples(S['cfg'], S['neutral']).map(lambda p: dict(p[0], **p[1]))})


def oracle(case):
    cfg = case['cfg']
    v = values.build(case['v'])
    p = values.pp(v, **cfg)
    labels = []
    if p.exc is not None:
        return core.viol('pformat-raised', '%r' % (p.exc,))
    if p.fallback_warnings():
        return core.viol('printer-failed', p.fallback_warnings()[0][:300] + '\n' + p.text[:300])
    try:
        back = values.evaluate(p.text)
    except Exception as e:
        return core.viol('not-evaluable', '%r\n%s' % (e, p.text[:600]))
    sort = cfg['sort_dict_keys']
    exp = eqv.canon(v, eqv.expected_mode(sort))
    act = eqv.canon(back, eqv.actual_mode(sort))
    if exp != act:
        code = 'not-equal'
        if eqv.canon(v, 'sort') == eqv.canon(back, 'sort'):
            code = 'dict-order'
        return core.viol(code, 'value %r\nprinted\n%s\nevaluates to %r' % (v, p.text[:600], back))
    multi = '\n' in p.text
    has_str = ("'" in p.text) or ('"' in p.text)
    if multi:
        labels.append('multiline')
    if sort:
        labels.append('sorted')
    nontrivial = values.has_container(case['v']) and (multi or has_str)
    return core.ok(nontrivial, labels)
