"""C19 - output depends only on the value and the settings; inputs are never modified."""
import collections
import json
import os
import re
import subprocess
import sys
import types

from .. import core, values, gens, stdvals, vtypes

ID = 'C19'
LEVEL = 'exploration'
RULE = ('case = (corpus of 2..10 (value recipe, settings) pairs drawn from all generators - built-ins, mixed-type dict keys '
        'with sort_dict_keys=True, commented values, subclass instances, pretty_call objects, stdlib instances incl. the '
        'lazily registered ones and struct sequences, cyclic graphs, instances printed through a value-dependent predicate, '
        'comments with whitespace-only lines next to comments long enough to wrap - plus a history: a sequence of corpus indices with '
        'repetitions, some of them on a freshly rebuilt equal value instead of the long-lived object, with allocator perturbations (allocate/free junk) between calls). Oracle: for each (value object, '
        'settings) every text in the history is identical (recursion-marker ids masked); a canonical deep snapshot of '
        'every input (types, contents, order, default_factory, maxlen, comment wrappers, sharing pattern) taken before '
        'equals the one taken after. Histories also contain failing calls (a printer returns a non-document, pformat raises) whose outcome is '
        'ignored. Additionally (custom phase) fresh-interpreter histories - each corpus value printed FIRST, and printed '
        'right after an interferer (unparseable struct sequence, IntEnum member, Enum member, a failing call, lazily '
        'registered types, a commented long string) - are compared with the warm in-process text (one subprocess each). '
        'non-trivial = some value was printed >= 3 times with >= 1 value of another type printed in between; distinct by '
        'case hash')
ASSUMPTIONS = ['cross-interpreter comparison leaves out nothing in this corpus (no same-type incomparable keys are generated)',
               'recursion markers contain id() by design and are compared after masking the number']
BUDGET = {'quick': {'random': 2500, 'shards': 16}, 'thorough': {'random': 100000, 'shards': 16}}

IDMASK = re.compile(r'with id=\d+>')

MIXED_KEYS = ['dict', [[['int', 1], ['int', 1]], [['str', 'a'], ['int', 2]], [['none'], ['int', 3]], [['tuple', [['int', 1]]], ['int', 4]],
                       [['bytes', '78'], ['int', 5]], [['float', '2.5'], ['int', 6]], [['bool', False], ['int', 7]], [['fset', []], ['int', 8]]]]
LONG_KEY_DICT = ['dict', [[['str', 'a fairly long key made of several words'], ['int', 1]], [['bytes', b'another key of some length'.hex()], ['list', [['int', 2]]]]]]
# keys of one type that are comparable with each other (sorted order is defined) / that are not
TUPLE_KEYS = ['dict', [[['tuple', [['int', 2], ['str', 'b']]], ['int', 1]], [['tuple', [['int', 1], ['str', 'a']]], ['int', 2]],
                       [['tuple', [['int', 1], ['str', 'b']]], ['int', 3]], [['tuple', [['int', 0], ['str', 'z']]], ['int', 4]]]]
CLASHING_TUPLE_KEYS = ['dict', [[['tuple', [['str', 'a'], ['int', 1]]], ['int', 1]], [['tuple', [['int', 1], ['str', 'a']]], ['int', 2]]]]
FSET_KEYS = ['dict', [[['fset', [['int', 1], ['int', 2]]], ['int', 1]], [['fset', [['int', 1]]], ['int', 2]], [['fset', []], ['int', 3]]]]
COLD_CORPUS = [
    (['std', 'uuid', '12345678123456781234567812345678'], {}),
    (['std', 'enum', 'Color', 'RED'], {}),
    (['std', 'mproxy', [[['str', 'a'], ['int', 1]]]], {}),
    (['std', 'partial', 'partial', 'user_function', [['int', 1]], [['k', ['str', 'v']]]], {}),
    (['std', 'path', 'PurePosixPath', '/usr/local/lib/python3/site-packages/some/long/path/name.py'], {'width': 30}),
    (['std', 'struct_time', [2020, 1, 2, 3, 4, 5, 3, 2, 0]], {}),
    (['std', 'datetime', [2020, 1, 2, 3, 4, 5, 6], ['pytz', 'Europe/Helsinki'], 0], {}),
    (['std', 'timedelta', [-800, 3661, 1001]], {}),
    (['std', 'counter', [[['str', 'a'], 3], [['str', 'b'], 3], [['int', 1], 5]]], {}),
    (['std', 'ddict', 'list', [[['int', 1], ['list', []]]]], {}),
    (['std', 'exc', 'ValueError', [['int', 1], ['str', 'x']]], {}),
    (['std', 'ntuple', 'Point', [['int', 1], ['list', [['int', 2]]]]], {}),
    (MIXED_KEYS, {'sort_dict_keys': True}),
    (MIXED_KEYS, {'sort_dict_keys': True, 'width': 20}),
    (['list', [['cmt', 'a comment with several words in it', ['str', 'lorem ipsum dolor sit amet ' * 4]], ['int', 1]]], {'width': 40}),
    (['dict', [[['str', 'k'], ['cmt', 'c', ['dict', [[['str', 'k'], ['cmt', 'd', ['int', 1]]]]]]]]], {}),
    (['sub', 'str', 'enum', ['str', 'a']], {}),
    (['sub', 'int', 'enum', ['int', 1]], {}),
    (['call', 'box', [['list', [['int', 1], ['int', 2]]]], [['kw', ['fset', [['int', 1]]]]]], {'width': 10}),
    (['set', [['int', 1], ['str', 'x'], ['int', 300], ['float', '2.5']]], {}),
    (['fset', [['str', 'b'], ['str', 'a'], ['int', 3]]], {'width': 5}),
    (['str', 'a long string with words that has to be split over several lines at this width'], {'width': 30}),
    (['bytes', (b'bytes \x00 with \xff escapes ' * 4).hex()], {'width': 30}),
    (['graph', {'kinds': ['list', 'dict'], 'edges': [[1, 1], [0]], 'root': 0, 'root2': 1}], {}),
    (['cmt', 'note', ['std', 'uuid', '12345678123456781234567812345678']], {}),
    (['list', [['cmt', 'member', ['std', 'enum', 'Color', 'GREEN']], ['int', 1]]], {}),
    (['dict', [[['str', 'p'], ['tcmt', 'tc', ['std', 'path', 'PurePosixPath', '/a/b']]]]], {}),
    (['pred', 1, 7], {}),
    (LONG_KEY_DICT, {'width': 100}),
    (LONG_KEY_DICT, {'width': 24}),
    (['list', [['pred', 0, 8]]], {}),
    (['dict', [[['str', 'k'], ['cmt', 'the quick brown fox jumps over the lazy dog again and again until the line has to wrap', ['list', [['int', 1], ['int', 2]]]]]]], {'width': 40}),
    (['tcmt', 'first line\n   \nlast line', ['list', [['int', 1]]]], {}),
    (TUPLE_KEYS, {'sort_dict_keys': True}),
    (FSET_KEYS, {'sort_dict_keys': True}),
    # lazily registered types whose very first print is at a depth cut / truncated / sorted
    (['list', [['std', 'uuid', '12345678123456781234567812345678']]], {'depth': 1}),
    (['list', [['std', 'enum', 'Color', 'GREEN']]], {'depth': 1}),
    (['dict', [[['str', 'p'], ['list', [['std', 'path', 'PurePosixPath', '/a/b']]]]]], {'depth': 2}),
    (['list', [['std', 'partial', 'partial', 'len', [], []], ['int', 1], ['int', 2]]], {'max_seq_len': 1}),
    (['list', [['std', 'mproxy', [[['str', 'a'], ['int', 1]]]]]], {'depth': 1, 'sort_dict_keys': True}),
    (['std', 'chainmap', [[[['str', 'k'], ['int', 1]]], []]], {}),
    (['list', [['str', 'epsilon zeta eta theta iota kappa lambda mu'], ['float', '0.0'], ['int', 1]]], {'width': 20}),
    (['list', [['str', 'epsilon zeta'], ['bytes', b'epsilon zeta'.hex()], ['float', '0.0'], ['int', 1]]], {}),
    (['list', [['set', []], ['sub', 'list', 'plain', ['list', []]], ['fset', []], ['sub', 'dict', 'plain', ['dict', []]]]], {}),
    (['list', [['std', 'chainmap', [[], [[['str', 'k'], ['int', 1]]], [], []]], ['std', 'deque', [['int', 1]], 3]]], {}),
    # struct sequences of other classes (os.stat_result has unnamed fields), each with a parseable and an unparseable repr
    (['std', 'structseq', 'stat_result', [['int', 33188 + j] for j in range(10)]], {}),
    (['std', 'structseq', 'stat_result', [['opaque', 3]] + [['int', j] for j in range(1, 10)]], {}),
    (['std', 'structseq', 'terminal_size', [['int', 80], ['int', 24]]], {}),
    (['std', 'structseq', 'terminal_size', [['int', 80], ['opaque', 4]]], {}),
    # a field with a printer of its own whose __repr__ raises (the struct sequence's repr cannot even be taken)
    (['std', 'struct_time_x', [['reprraises', 1]] + [['int', j] for j in range(1, 9)]], {}),
    (['list', [['std', 'structseq', 'terminal_size', [['reprraises', 2], ['int', 24]]], ['reprraises', 3]]], {}),
    (['std', 'structseq', 'times_result', [['float', '0.5'], ['float', '0.25'], ['float', '0.0'], ['float', '0.0'], ['float', '17.0']]], {}),
    # a struct sequence whose repr cannot be parsed (D26: printed differently before / after the field names were resolved)
    (['std', 'struct_time_x', [['opaque', 1]] + [['int', j] for j in range(1, 9)]], {}),
    (['list', [['std', 'struct_time_x', [['int', 1], ['opaque', 2]] + [['int', j] for j in range(2, 9)]], ['std', 'struct_time', [2021, 1, 2, 3, 4, 5, 3, 2, 0]]]], {}),
]
_warmed = []


def build_any(r):
    if r[0] == 'graph':
        from . import c13
        return c13.build_graph(r[1])[r[1]['root']]
    return values.build(r)


def snapshot(v, seen=None):
    """canonical pure-data snapshot of everything observable about v"""
    from prettyprinter.prettyprinter import _CommentedValue, _TrailingCommentedValue
    if seen is None:
        seen = {}
    t = type(v)
    if v is None or t in (bool, int, str, bytes) or v is Ellipsis:
        return (t.__name__, v if v is not Ellipsis else '...')
    if t is float:
        return ('float', v.hex() if v == v else 'nan')
    mutable = isinstance(v, (list, dict, set, collections.deque, types.SimpleNamespace, vtypes.Box, _CommentedValue, _TrailingCommentedValue))
    if mutable:
        if id(v) in seen:
            return ('ref', seen[id(v)])
        seen[id(v)] = len(seen)
    tn = t.__module__ + '.' + t.__qualname__
    if isinstance(v, _CommentedValue):
        return ('comment', v.comment, snapshot(v.value, seen))
    if isinstance(v, _TrailingCommentedValue):
        return ('tcomment', v.comment, snapshot(v.value, seen))
    if isinstance(v, collections.defaultdict):
        return (tn, repr(v.default_factory), tuple((snapshot(k, seen), snapshot(x, seen)) for k, x in v.items()))
    if isinstance(v, collections.ChainMap):
        return (tn, tuple(snapshot(m, seen) for m in v.maps))
    if isinstance(v, dict):
        return (tn, tuple((snapshot(k, seen), snapshot(x, seen)) for k, x in v.items()))
    if isinstance(v, collections.deque):
        return (tn, v.maxlen, tuple(snapshot(x, seen) for x in v))
    if isinstance(v, (list, tuple)):
        return (tn, tuple(snapshot(x, seen) for x in v))
    if isinstance(v, (set, frozenset)):
        return (tn, tuple(snapshot(x, seen) for x in v))    # iteration order is part of the observable state
    if isinstance(v, types.MappingProxyType):
        return (tn, tuple((snapshot(k, seen), snapshot(x, seen)) for k, x in v.items()))
    if isinstance(v, types.SimpleNamespace):
        return (tn, tuple((k, snapshot(x, seen)) for k, x in v.__dict__.items()))
    if isinstance(v, vtypes.Box):
        return (tn, tuple(snapshot(x, seen) for x in v.args), tuple((k, snapshot(x, seen)) for k, x in v.kwargs.items()))
    import functools
    if isinstance(v, (functools.partial, functools.partialmethod)):
        return (tn, repr(v.func), tuple(snapshot(x, seen) for x in v.args), tuple((k, snapshot(x, seen)) for k, x in v.keywords.items()))
    if isinstance(v, BaseException):
        return (tn, tuple(snapshot(x, seen) for x in v.args))
    try:
        return (tn, repr(v))
    except Exception:
        return (tn, 'no-repr', getattr(v, '__dict__', None) and sorted((k, repr(x)) for k, x in v.__dict__.items()))


def fixed_cases():
    items = [[r, c] for r, c in COLD_CORPUS]
    n = len(items)
    order = list(range(n)) + list(range(n - 1, -1, -1)) + [1000 + i for i in range(n)] + [i for i in range(n) if i % 2] + [1000 + i for i in range(n - 1, -1, -1)]
    yield {'items': items, 'order': order, 'junk': [0, 3, 50, 7, 1000]}
    yield {'items': [[MIXED_KEYS, {'sort_dict_keys': True}], [['int', 1], {}]], 'order': [0, 1] * 40, 'junk': [1, 17, 333, 5, 64, 2]}   # D17
    # a call that raises part-way (the printer of a Flaky object returns a non-document while the containers around it are
    # open), then the same and other values again - with every combination of settings used before
    flaky_items = [[['list', [['dict', [[['str', 'k'], ['list', [['flaky', 1], ['int', 2]]]]]], ['tuple', [['flaky', 2]]]]], {}],
                   [['dict', [[['str', 'a'], ['list', [['flaky', 3]]]]]], {'width': 20}],
                   [['list', [['list', [['int', 1], ['int', 2]]], ['dict', [[['str', 'k'], ['int', 1]]]]]], {}],
                   [['flaky', 0], {}],
                   [['list', [['flaky', 1]]], {'sort_dict_keys': True, 'depth': 2}]]
    yield {'items': flaky_items, 'order': [0, 1, 2, 3, 4, 2000, 0, 2001, 1, 2, 2003, 3, 2004, 4, 0, 1000, 1001, 2002, 2], 'junk': [1, 5]}
    # values that are equal but differently spelled (a str subclass comparing case-insensitively, 1 / 1.0 / True, 0.0 / -0.0)
    up, low = 'EPSILON ZETA ETA THETA IOTA KAPPA LAMBDA MU', 'epsilon zeta eta theta iota kappa lambda mu'
    twins = [[['list', [['sub', 'str', 'ci', ['str', up]]]], {'width': 20}], [['list', [['str', low]]], {'width': 20}],
             [['list', [['sub', 'str', 'ci', ['str', low]]]], {'width': 20}], [['list', [['sub', 'bytes', 'ci', ['bytes', up.encode().hex()]]]], {'width': 24}],
             [['list', [['bytes', low.encode().hex()]]], {'width': 24}],
             [['list', [['int', 1]]], {}], [['list', [['float', '1.0']]], {}], [['list', [['bool', True]]], {}], [['list', [['float', '-0.0']]], {}], [['list', [['float', '0.0']]], {}], [['list', [['int', 0]]], {}]]
    twins += [[r, {}] for r, c in twins[:5]] + [[['sub', 'str', 'ci', ['str', 'Mixed Case']], {}], [['str', 'mixed case'], {}], [['str', 'MIXED CASE'], {}],
                                               [['dict', [[['sub', 'str', 'ci', ['str', 'Key']], ['int', 1]]]], {}], [['dict', [[['str', 'key'], ['int', 1]]]], {}]]
    m = len(twins)
    yield {'items': twins, 'order': list(range(m)) + list(range(m - 1, -1, -1)) + [1000 + i for i in range(m)], 'junk': [3]}
    # empty containers and empty subclass instances at a depth cut, then without a limit (and the other way round)
    empties = [['set', []], ['fset', []], ['sub', 'list', 'plain', ['list', []]], ['sub', 'set', 'plain', ['set', []]], ['sub', 'dict', 'repr', ['dict', []]],
               ['sub', 'tuple', 'plain', ['tuple', []]], ['list', []], ['dict', []]]
    items = []
    for e in empties:
        items += [[['list', [e]], {'depth': 1}], [e, {}], [['list', [e]], {}], [e, {'depth': 0}]]
    n = len(items)
    yield {'items': items, 'order': list(range(n)) + list(range(n - 1, -1, -1)) + [i for i in range(n) if i % 4 == 1] + [1000 + i for i in range(n)], 'junk': [2]}
    # D26: a struct sequence whose repr cannot be parsed prints the same before and after the field names of its class were resolved
    weird = ['std', 'struct_time_x', [['opaque', 1]] + [['int', j] for j in range(1, 9)]]
    yield {'items': [[weird, {}], [['std', 'struct_time', [2020, 1, 2, 3, 4, 5, 3, 2, 0]], {}], [['list', [weird, ['std', 'struct_time', [2021, 1, 2, 3, 4, 5, 3, 2, 0]]]], {}]],
           'order': [0, 1, 0, 2, 1000, 1002], 'junk': []}
    # D22: an unparseable struct sequence printed first must not change how later ones print
    yield {'fresh_interpreter_history': [['ok', ['std', 'struct_time_x', [['opaque', 1]] + [['int', j] for j in range(1, 9)]], {}],
                                         ['ok', ['std', 'struct_time', [2020, 1, 2, 3, 4, 5, 3, 2, 0]], {}]]}


def strategy(tier):
    S = values.strategies()
    st = S['st']
    cfg = st.fixed_dictionaries({}, optional={'width': st.sampled_from([5, 20, 40, 79]), 'indent': st.sampled_from([2, 4]),
                                              'sort_dict_keys': st.booleans(), 'depth': st.sampled_from([1, 2, None]),
                                              'max_seq_len': st.sampled_from([2, 1000])})
    mixed = st.lists(st.tuples(S['hashable'], S['leaf']).map(list), min_size=2, max_size=6).map(lambda kv: ['dict', kv])
    graph = st.builds(lambda k, e: ['graph', {'kinds': k, 'edges': [e[0], e[1]], 'root': 0, 'root2': 1}],
                      st.lists(st.sampled_from(['list', 'dict', 'tuple']), min_size=2, max_size=2),
                      st.lists(st.lists(st.integers(-3, 1), max_size=2), min_size=2, max_size=2))
    flaky_leaf = st.integers(0, 3).map(lambda k: ['flaky', k])
    flaky_tree = st.recursive(st.one_of(flaky_leaf, S['leaf']), lambda ch: st.one_of(
        st.lists(ch, min_size=1, max_size=3).map(lambda xs: ['list', xs]),
        st.lists(st.tuples(S['r_str'], ch).map(list), min_size=1, max_size=2).map(lambda kv: ['dict', kv]),
        st.lists(ch, min_size=1, max_size=2).map(lambda xs: ['tuple', xs])), max_leaves=6)
    weird_st = st.tuples(st.sampled_from([['opaque', 1], ['str', 'x'], ['float', 'nan'], ['list', []]]), st.integers(0, 8)).map(
        lambda p: ['std', 'struct_time_x', [p[0] if j == p[1] else ['int', j + 1] for j in range(9)]])
    pred_item = st.tuples(st.integers(0, 1), st.integers(0, 3)).map(lambda p: ['pred', p[0], p[1]])
    ws_comment = st.sampled_from(['a\n  \nb', '   ', 'x\n \n', 'one two\n\t\nthree'])
    long_comment = st.just('the quick brown fox jumps over the lazy dog again and again until the line has to wrap around')
    small_list = st.lists(S['r_int'], min_size=1, max_size=3).map(lambda xs: ['list', xs])
    same_value_two_widths = st.tuples(st.sampled_from([LONG_KEY_DICT, ['list', [['str', 'lorem ipsum dolor sit amet consectetur adipiscing elit']]]]),
                                     st.sampled_from([{'width': 12}, {'width': 24}, {'width': 50}, {'width': 100}, {'width': 100, 'indent': 2}])).map(list)
    comment_items = st.one_of(
        st.tuples(ws_comment, small_list).map(lambda p: ['tcmt', p[0], p[1]]),
        st.tuples(ws_comment, S['r_int']).map(lambda p: ['dict', [[['cmt', p[0], p[1]], ['int', 0]]]]),
        st.tuples(long_comment, small_list).map(lambda p: ['dict', [[['str', 'k'], ['cmt', p[0], p[1]]]]]),
        st.tuples(long_comment, small_list).map(lambda p: ['list', [['cmt', p[0], p[1]], ['int', 1]]]),
    )
    tkey = st.tuples(st.one_of(S['r_int'], S['r_str']), st.one_of(S['r_int'], S['r_str'])).map(lambda p: ['tuple', list(p)])
    tuple_key_dict = st.lists(st.tuples(tkey, S['r_int']).map(list), min_size=2, max_size=4).map(lambda kv: [['dict', kv], {'sort_dict_keys': True}])
    item = st.one_of(
        same_value_two_widths, same_value_two_widths, tuple_key_dict,
        st.sampled_from([[TUPLE_KEYS, {'sort_dict_keys': True}], [CLASHING_TUPLE_KEYS, {'sort_dict_keys': True}]]),
        st.one_of(pred_item, pred_item.map(lambda r: ['list', [r]])).map(lambda r: [r, {}]),
        st.tuples(comment_items, st.sampled_from([{'width': 30}, {'width': 40}, {}])).map(list),
        st.tuples(flaky_tree, cfg).map(list),
        st.tuples(weird_st, st.just({})).map(list),
        st.tuples(gens.any_value(S, comments=True), cfg).map(list),
        st.tuples(gens.any_value(S, comments=True), cfg).map(list),
        st.tuples(mixed, cfg.map(lambda c: dict(c, sort_dict_keys=True))).map(list),
        st.tuples(graph, st.just({})).map(list),
        st.sampled_from([[r, c] for r, c in COLD_CORPUS]),
    )

    @st.composite
    def cases(draw):
        items = draw(st.lists(item, min_size=2, max_size=10))
        idx = st.integers(0, len(items) - 1)
        order = draw(st.lists(st.one_of(idx, idx, idx.map(lambda i: 1000 + i), idx.map(lambda i: 2000 + i)), min_size=3, max_size=30))
        junk = draw(st.lists(st.sampled_from([0, 1, 2, 7, 50, 333, 1000]), max_size=6))
        return {'items': items, 'order': order, 'junk': junk}
    return cases()


def oracle_cold(case):
    """replay of one fresh-interpreter history"""
    hist = case['fresh_interpreter_history']
    mode, r, cfg = hist[-1]
    if not _warmed:
        # the warm side: a process that has printed the whole corpus before
        for cr, ccfg in COLD_CORPUS:
            values.pp(build_any(cr), **ccfg)
        _warmed.append(True)
    for _ in range(2):
        p = values.pp(build_any(r), **cfg)
    warm = IDMASK.sub('with id=N>', p.text) if p.exc is None else 'EXC ' + type(p.exc).__name__
    script = COLD_SCRIPT % {'repo': core.REPO_DIR, 'verif': core.VERIF_DIR}
    proc = subprocess.run([sys.executable, '-c', script, json.dumps(hist)], capture_output=True, text=True,
                          env=dict(os.environ, PYTHONHASHSEED='0'), timeout=120)
    if proc.returncode != 0:
        raise core.HarnessError('cold subprocess failed: %s' % proc.stderr[-800:])
    cold = json.loads(proc.stdout)
    if cold != warm:
        return core.viol('cold-vs-warm-differs', 'history %s in a fresh interpreter ends with\n%s\nwarm text of the last value\n%s' % (
            core.canonical(hist)[:400], cold[:500], warm[:500]))
    return core.ok(True, ['cold'])


def oracle(case):
    if 'fresh_interpreter_history' in case:
        return oracle_cold(case)
    objs = [build_any(r) for r, _ in case['items']]
    cfgs = [dict(c) for _, c in case['items']]
    try:
        before = [snapshot(o) for o in objs]
    except RecursionError:
        return core.skip('snapshot-recursion')
    first = {}
    positions = collections.defaultdict(list)
    junk = case.get('junk') or [0]
    hold = []
    from .. import faults
    for step, i in enumerate(case['order']):
        if i >= 2000:
            # a failing call in between: the printer of every Flaky object returns a non-document, pformat raises
            # (if the item holds one); its outcome is not compared, later calls must be unaffected
            i = i % 1000 % len(objs)
            faults.Flaky.broken = True
            try:
                values.pp(objs[i], **cfgs[i])
            finally:
                faults.Flaky.broken = False
            continue
        rebuilt = i >= 1000     # print a freshly built, equal value instead of the long-lived object
        i = i % 1000 % len(objs)
        if rebuilt and ('"nan"' in core.canonical(case['items'][i][0]) or cfgs[i].get('sort_dict_keys')):
            # hash(nan) is identity-based: a rebuilt set/dict holding nan may iterate differently; and the
            # relative order of same-type incomparable keys under sort_dict_keys is unspecified (address tie-break,
            # as in pprint) - both are stable for one object, which is what the long-lived prints check
            rebuilt = False
        # allocator perturbation: addresses of temporaries differ from call to call
        n = junk[step % len(junk)]
        hold.append([object() for _ in range(n)])
        if len(hold) > 2:
            hold.pop(0)
        target = build_any(case['items'][i][0]) if rebuilt else objs[i]
        p = values.pp(target, **cfgs[i])
        del target
        out = ('exc', repr(p.exc)) if p.exc is not None else ('ok', IDMASK.sub('with id=N>', p.text))
        positions[i].append(step)
        if i not in first:
            first[i] = (step, out)
        elif first[i][1] != out:
            return core.viol('history-dependent-output', 'item %d %s settings %r: at step %d\n%s\nat step %d\n%s' % (
                i, core.canonical(case['items'][i][0])[:300], cfgs[i], first[i][0], str(first[i][1][1])[:500], step, str(out[1])[:500]))
    after = [snapshot(o) for o in objs]
    for i, (a, b) in enumerate(zip(before, after)):
        if a != b:
            return core.viol('input-mutated', 'item %d %s\nbefore %r\nafter  %r' % (i, core.canonical(case['items'][i][0])[:300], a, b))
    kinds = [case['items'][i % 1000 % len(objs)][0][0:2] for i in case['order']]
    nontrivial = False
    for i, pos in positions.items():
        if len(pos) >= 3:
            mine = case['items'][i][0][0:2]
            between = kinds[pos[0]:pos[-1]]
            if any(k != mine for k in between):
                nontrivial = True
    return core.ok(nontrivial, ['items:%d' % len(objs)])


COLD_SCRIPT = r'''
import sys, json, warnings, re
sys.path.insert(0, %(repo)r); sys.path.insert(1, %(verif)r)
warnings.simplefilter('ignore')
from ppv.checks import c19
from ppv import faults
from prettyprinter import pformat
jobs = json.loads(sys.argv[1])
out = None
for mode, r, cfg in jobs:
    v = c19.build_any(r)
    if mode == 'fail':
        faults.Flaky.broken = True
    try:
        out = c19.IDMASK.sub('with id=N>', pformat(v, **cfg))
    except Exception as e:
        out = 'EXC ' + type(e).__name__
    finally:
        faults.Flaky.broken = False
print(json.dumps(out))
'''

# values printed BEFORE the target in a fresh interpreter: each warms / poisons some piece of global state
INTERFERERS = [
    ('ok', ['std', 'struct_time_x', [['opaque', 1]] + [['int', j] for j in range(1, 9)]], {}),          # D22
    ('ok', ['sub', 'int', 'enum', ['int', 1]], {}),
    ('ok', ['std', 'enum', 'Color', 'RED'], {}),
    ('fail', ['list', [['dict', [[['str', 'k'], ['list', [['flaky', 1]]]]]]]], {}),
    ('ok', ['list', [['std', 'path', 'PurePosixPath', '/a/b'], ['std', 'uuid', '0' * 32], ['std', 'partial', 'partial', 'len', [], []]]], {}),
    ('ok', ['dict', [[['str', 'k'], ['cmt', 'c', ['str', 'lorem ipsum dolor sit amet consectetur adipiscing elit sed do']]]]], {'width': 20}),
    ('ok', LONG_KEY_DICT, {'width': 24}),
    ('ok', LONG_KEY_DICT, {'width': 12, 'indent': 2}),
    ('ok', ['pred', 0, 1], {}),
    ('ok', ['list', [['pred', 1, 2]]], {}),
    ('ok', ['tcmt', 'a\n  \nb', ['list', [['int', 1]]]], {}),
    ('ok', ['dict', [[['cmt', 'k\n \n', ['int', 1]], ['int', 2]]]], {}),
    ('ok', CLASHING_TUPLE_KEYS, {'sort_dict_keys': True}),
    ('ok', ['std', 'structseq', 'stat_result', [['int', 1], ['opaque', 5]] + [['int', j] for j in range(2, 10)]], {}),
    ('ok', ['std', 'structseq', 'terminal_size', [['opaque', 6], ['int', 24]]], {}),
    ('ok', ['list', [['sub', 'str', 'ci', ['str', 'EPSILON ZETA ETA THETA IOTA KAPPA LAMBDA MU']], ['float', '-0.0'], ['bool', True]]], {'width': 20}),
    ('ok', ['list', [['sub', 'str', 'ci', ['str', 'EPSILON ZETA']], ['sub', 'bytes', 'ci', ['bytes', b'EPSILON ZETA'.hex()]], ['float', '-0.0'], ['bool', True]]], {}),
    ('ok', ['list', [['set', []], ['sub', 'list', 'plain', ['list', []]], ['fset', []], ['sub', 'dict', 'plain', ['dict', []]]]], {'depth': 1}),
    ('ok', MIXED_KEYS, {'sort_dict_keys': True}),
]


def custom_phase(tier, seed, st, procs):
    # fresh-interpreter histories: [target] and [interferer, target] vs. the warm in-process text of the target
    script = COLD_SCRIPT % {'repo': core.REPO_DIR, 'verif': core.VERIF_DIR}
    env = dict(os.environ, PYTHONHASHSEED='0')
    corpus = COLD_CORPUS
    warm = {}
    for rnd in (0, 1):
        seq = list(enumerate(corpus))
        if rnd:
            seq.reverse()
        for i, (r, cfg) in seq:
            p = values.pp(build_any(r), **cfg)
            warm[i] = IDMASK.sub('with id=N>', p.text) if p.exc is None else 'EXC ' + type(p.exc).__name__
    jobs = []
    for i, (r, cfg) in enumerate(corpus):
        jobs.append((i, None, [['ok', r, cfg]]))
    targets = range(len(corpus)) if tier == 'thorough' else [0, 1, 5, 12, 16, 17] + list(range(23, len(corpus)))
    for k, (mode, ir, icfg) in enumerate(INTERFERERS):
        for i in targets:
            r, cfg = corpus[i]
            jobs.append((i, k, [[mode, ir, icfg], ['ok', r, cfg]]))
    running = []
    for job in jobs:
        running.append((job, subprocess.Popen([sys.executable, '-c', script, json.dumps(job[2])], stdout=subprocess.PIPE,
                                              stderr=subprocess.PIPE, env=env, text=True)))
        if len(running) >= procs:
            _collect(running, warm, st)
            running = []
    _collect(running, warm, st)
    return {'fresh_interpreter_histories': len(jobs)}


def _collect(running, warm, st):
    for (i, k, hist), proc in running:
        out, err = proc.communicate(timeout=120)
        case = {'fresh_interpreter_history': hist}
        if proc.returncode != 0:
            raise core.HarnessError('cold subprocess failed: %s' % err[-800:])
        cold = json.loads(out)
        if cold != warm[i]:
            st.record(case, core.viol('cold-vs-warm-differs', 'history %s in a fresh interpreter ends with\n%s\nwarm text of the last value\n%s' % (
                core.canonical(hist)[:400], cold[:500], warm[i][:500])), 'cold')
        else:
            st.record(case, core.ok(True, ['cold' if k is None else 'cold-after-interferer']), 'cold')
